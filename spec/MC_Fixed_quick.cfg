SPECIFICATION Spec
CONSTANTS Depth = 3
          Alphabet = "full"
INVARIANT ImplRefinesProp NoDoubleHasanta AutoVowelInv Emit
CHECK_DEADLOCK FALSE
