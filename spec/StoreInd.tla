------------------------------ MODULE StoreInd ------------------------------
(* Apalache-typed copy of MC_Store (StoreDerived = FALSE) with an inductive invariant:
   the live map, the file and the user's explicit choices coincide; Remembered follows. *)
EXTENDS Integers

Words == {"w", "ws", "v"}
Cands == 0..2
None  == 99

VARIABLES
    \* @type: Str -> Int;
    mem,
    \* @type: Str -> Int;
    file,
    \* @type: Str -> Int;
    own

Nothing == [x \in Words |-> None]
Init == mem = Nothing /\ file = Nothing /\ own = Nothing

Preselected(m, x) == IF m[x] # None THEN m[x] ELSE IF x = "ws" /\ m["w"] # None THEN m["w"] ELSE 0
Demanded(x) == IF own[x] # None THEN own[x] ELSE IF x = "ws" /\ own["w"] # None THEN own["w"] ELSE 0

Commit(x, i) ==
    LET p == Preselected(mem, x) IN
    IF i # p
    THEN /\ mem' = [mem EXCEPT ![x] = i]
         /\ file' = [mem EXCEPT ![x] = i]
         /\ own' = [own EXCEPT ![x] = i]
    ELSE UNCHANGED <<mem, file, own>>
Look    == UNCHANGED <<mem, file, own>>
Restart == mem' = file /\ UNCHANGED <<file, own>>

Next == (\E x \in Words, i \in Cands : Commit(x, i)) \/ Look \/ Restart

TypeOK == /\ mem \in [Words -> Cands \union {None}] /\ file \in [Words -> Cands \union {None}] /\ own \in [Words -> Cands \union {None}]
IndInv == TypeOK /\ mem = own /\ file = own
IndInit == IndInv
Remembered == \A x \in Words : Preselected(mem, x) = Demanded(x)
=============================================================================
