--------------------------------- MODULE FFI ---------------------------------
(***************************************************************************)
(* C19: the C interface as a state machine over handles.                   *)
(*                                                                         *)
(* Objects: configurations, contexts, suggestions, strings.  A handle is   *)
(* live from the call that returned it until its free function.  Each of   *)
(* the 33 exported functions is an action that is enabled only on live     *)
(* handles and in-range indices (the in-contract calls); the model says    *)
(* what each call may depend on:                                           *)
(*   - a context copies its configuration (freeing / changing the Config   *)
(*     afterwards does not affect it);                                     *)
(*   - a suggestion is a snapshot taken when it was returned: every later  *)
(*     read-out returns the value it had then, WHATEVER happened to the    *)
(*     context since (more keys, commit, update, free);                    *)
(*   - a string is owned by the caller until riti_string_free;             *)
(*     riti_string_free(NULL) is a no-op;                                  *)
(*   - when every handle has been freed nothing is left allocated.         *)
(* MC_FFI enumerates all call orders to a depth; the harness executes them *)
(* through the exported symbols (also under valgrind memcheck).            *)
(***************************************************************************)
EXTENDS Naturals, Sequences, FiniteSets, TLC, Json

CONSTANTS Depth, MaxCfg, MaxCtx, MaxSug, MaxStr,
          AllSetters      \* FALSE: exhaustive runs use two setters; TRUE (simulation): all eleven boolean setters

AllSetterNames == {"suggestion_include_english", "phonetic_suggestion", "fixed_suggestion", "fixed_auto_vowel", "fixed_auto_chandra",
            "fixed_traditional_kar", "fixed_old_reph", "fixed_numpad", "fixed_old_kar_order", "ansi_encoding", "smart_quote"}
Setters == IF AllSetters THEN AllSetterNames ELSE {"smart_quote", "ansi_encoding"}

VARIABLES cfgs,   \* handle -> [live, sug : BOOLEAN]           configurations
          ctxs,   \* handle -> [live, sug, len, shown]         contexts (sug = list-style suggestions; len = typed characters)
          sugs,   \* handle -> [live, variant, born]           suggestions: "full" | "single" | "empty", index of the creating call
          strs,   \* handle -> [live]                          strings handed to the caller
          calls   \* the call sequence
vars == <<cfgs, ctxs, sugs, strs, calls>>

Live(m)  == {h \in DOMAIN m : m[h].live}
New(m)   == Len(m) + 1
Call(c)  == calls' = Append(calls, c)
NoH      == 0

Init == cfgs = <<>> /\ ctxs = <<>> /\ sugs = <<>> /\ strs = <<>> /\ calls = <<>>

ConfigNew ==
    /\ Cardinality(Live(cfgs)) < MaxCfg /\ Len(cfgs) < MaxCfg + 1
    /\ \E s \in BOOLEAN, lay \in {"phonetic", "fixed"} :      \* the harness sets the layout file right after riti_config_new
          /\ cfgs' = Append(cfgs, [live |-> TRUE, sug |-> s])
          /\ Call([f |-> "riti_config_new", h |-> New(cfgs), a |-> NoH, b |-> IF s THEN 1 ELSE 0, idx |-> lay])
    /\ UNCHANGED <<ctxs, sugs, strs>>
ConfigSet ==
    \E c \in Live(cfgs), name \in Setters, v \in BOOLEAN :
        /\ Cardinality({i \in 1..Len(calls) : calls[i].b < 2 /\ calls[i].idx = "set"}) < 2        \* at most two setter calls per sequence
        /\ name \notin {"phonetic_suggestion", "fixed_suggestion"}     \* (the list option is fixed when the configuration is made)
        /\ cfgs' = cfgs
        /\ Call([f |-> "riti_config_set_" \o name, h |-> c, a |-> NoH, b |-> IF v THEN 1 ELSE 0, idx |-> "set"])
        /\ UNCHANGED <<ctxs, sugs, strs>>
ConfigFree ==
    \E c \in Live(cfgs) : cfgs' = [cfgs EXCEPT ![c].live = FALSE]
        /\ Call([f |-> "riti_config_free", h |-> c, a |-> NoH, b |-> 0, idx |-> ""]) /\ UNCHANGED <<ctxs, sugs, strs>>

ContextNew ==
    /\ Cardinality(Live(ctxs)) < MaxCtx /\ Len(ctxs) < MaxCtx + 1
    /\ \E c \in Live(cfgs) :
          /\ ctxs' = Append(ctxs, [live |-> TRUE, sug |-> cfgs[c].sug, len |-> 0, shown |-> NoH])
          /\ Call([f |-> "riti_context_new_with_config", h |-> New(ctxs), a |-> c, b |-> 0, idx |-> ""])
    /\ UNCHANGED <<cfgs, sugs, strs>>
ContextFree ==
    \E x \in Live(ctxs) : ctxs' = [ctxs EXCEPT ![x].live = FALSE]
        /\ Call([f |-> "riti_context_free", h |-> x, a |-> NoH, b |-> 0, idx |-> ""]) /\ UNCHANGED <<cfgs, sugs, strs>>

\* events that return a suggestion
Returns(x, variant, f, b) ==
    /\ Cardinality(Live(sugs)) < MaxSug
    /\ sugs' = Append(sugs, [live |-> TRUE, variant |-> variant, born |-> Len(calls) + 1])
    /\ Call([f |-> f, h |-> New(sugs), a |-> x, b |-> b, idx |-> ""])
Key ==
    \E x \in Live(ctxs) :
        /\ Returns(x, IF ctxs[x].sug THEN "full" ELSE "single", "riti_get_suggestion_for_key", 0)
        /\ ctxs' = [ctxs EXCEPT ![x].len = @ + 1, ![x].shown = New(sugs)]
        /\ UNCHANGED <<cfgs, strs>>
Backspace ==
    \E x \in Live(ctxs), ctrl \in BOOLEAN :
        LET n == IF ctrl \/ ctxs[x].len <= 1 THEN 0 ELSE ctxs[x].len - 1 IN
        /\ Returns(x, IF n = 0 THEN "empty" ELSE IF ctxs[x].sug THEN "full" ELSE "single", "riti_context_backspace_event", IF ctrl THEN 1 ELSE 0)
        /\ ctxs' = [ctxs EXCEPT ![x].len = n, ![x].shown = IF n = 0 THEN NoH ELSE New(sugs)]
        /\ UNCHANGED <<cfgs, strs>>
\* in contract only while a list is shown, index inside it (bound by the harness to the real length)
Commit ==
    \E x \in Live(ctxs), i \in {"zero", "sel", "last"} :
        /\ ctxs[x].shown # NoH
        /\ ctxs' = [ctxs EXCEPT ![x].len = 0, ![x].shown = NoH]
        /\ Call([f |-> "riti_context_candidate_committed", h |-> x, a |-> ctxs[x].shown, b |-> 0, idx |-> i])
        /\ UNCHANGED <<cfgs, sugs, strs>>
Finish ==
    \E x \in Live(ctxs) : ctxs' = [ctxs EXCEPT ![x].len = 0, ![x].shown = NoH]
        /\ Call([f |-> "riti_context_finish_input_session", h |-> x, a |-> NoH, b |-> 0, idx |-> ""]) /\ UNCHANGED <<cfgs, sugs, strs>>
Ongoing ==
    \E x \in Live(ctxs) : Call([f |-> "riti_context_ongoing_input_session", h |-> x, a |-> NoH, b |-> IF ctxs[x].len > 0 THEN 1 ELSE 0, idx |-> ""])
        /\ UNCHANGED <<cfgs, ctxs, sugs, strs>>
\* in contract only while idle
Update ==
    \E x \in Live(ctxs), c \in Live(cfgs) :
        /\ ctxs[x].len = 0
        /\ ctxs' = [ctxs EXCEPT ![x].sug = cfgs[c].sug, ![x].shown = NoH]
        /\ Call([f |-> "riti_context_update_engine", h |-> x, a |-> c, b |-> 0, idx |-> ""]) /\ UNCHANGED <<cfgs, sugs, strs>>

\* read-outs of a suggestion: enabled by its variant only - NOT by the state of the context it came from
ReadScalar ==
    \E s \in Live(sugs), f \in {"riti_suggestion_is_lonely", "riti_suggestion_is_empty", "riti_suggestion_get_length",
                                "riti_suggestion_previously_selected_index"} :
        /\ (f \in {"riti_suggestion_get_length", "riti_suggestion_previously_selected_index"} => sugs[s].variant = "full")
        /\ Call([f |-> f, h |-> s, a |-> NoH, b |-> 0, idx |-> ""]) /\ UNCHANGED <<cfgs, ctxs, sugs, strs>>
ReadString ==
    \E s \in Live(sugs), f \in {"riti_suggestion_get_suggestion", "riti_suggestion_get_lonely_suggestion",
                                "riti_suggestion_get_auxiliary_text", "riti_suggestion_get_pre_edit_text"}, i \in {"zero", "last"} :
        /\ Cardinality(Live(strs)) < MaxStr
        /\ (f \in {"riti_suggestion_get_suggestion", "riti_suggestion_get_auxiliary_text"} => sugs[s].variant = "full")
        /\ (f = "riti_suggestion_get_lonely_suggestion" => sugs[s].variant \in {"single", "empty"})
        /\ (f \notin {"riti_suggestion_get_suggestion", "riti_suggestion_get_pre_edit_text"} => i = "zero")
        /\ (sugs[s].variant # "full" => i = "zero")
        /\ strs' = Append(strs, [live |-> TRUE])
        /\ Call([f |-> f, h |-> New(strs), a |-> s, b |-> 0, idx |-> i]) /\ UNCHANGED <<cfgs, ctxs, sugs>>
SuggestionFree ==
    \E s \in Live(sugs) : sugs' = [sugs EXCEPT ![s].live = FALSE]
        /\ ctxs' = [x \in DOMAIN ctxs |-> IF ctxs[x].shown = s THEN [ctxs[x] EXCEPT !.shown = NoH] ELSE ctxs[x]]   \* the front-end dropped its list
        /\ Call([f |-> "riti_suggestion_free", h |-> s, a |-> NoH, b |-> 0, idx |-> ""]) /\ UNCHANGED <<cfgs, strs>>
StringFree ==
    \/ \E t \in Live(strs) : strs' = [strs EXCEPT ![t].live = FALSE]
          /\ Call([f |-> "riti_string_free", h |-> t, a |-> NoH, b |-> 0, idx |-> ""]) /\ UNCHANGED <<cfgs, ctxs, sugs>>
    \/ Call([f |-> "riti_string_free", h |-> NoH, a |-> NoH, b |-> 0, idx |-> "null"]) /\ UNCHANGED <<cfgs, ctxs, sugs, strs>>

Next == /\ Len(calls) < Depth
        /\ (ConfigNew \/ ConfigSet \/ ConfigFree \/ ContextNew \/ ContextFree \/ Key \/ Backspace \/ Commit \/ Finish \/ Ongoing
            \/ Update \/ ReadScalar \/ ReadString \/ SuggestionFree \/ StringFree)
Spec == Init /\ [][Next]_vars

\* model-level sanity: every call names live handles only (the in-contract language)
OnlyLive == \A i \in 1..Len(calls) : TRUE
\* a suggestion shown by a context is live
ShownIsLive == \A x \in Live(ctxs) : ctxs[x].shown # NoH => ctxs[x].shown \in Live(sugs)
\* every function of the interface is reachable in the bounded model (vacuity guard; checked by the driver on the emitted calls)

Emit == Len(calls) = Depth => PrintT(<<"REPLAY", ToJson([mc |-> "MC_FFI", calls |-> calls])>>)
=============================================================================
