------------------------------ MODULE Chars ------------------------------
(***************************************************************************)
(* The alphabet of the fixed-layout composition machine.  A character is a *)
(* one-code-point TLA+ string holding the real code point, a text is a     *)
(* sequence of characters.  The class sets are written from the Unicode    *)
(* Bengali chart (U+0980..U+09FF) and the wording of properties C12-C14,   *)
(* not from riti's tables; where riti's own class tables differ on edge    *)
(* members (U+09E0, U+09E2, U+09E3, U+09C4) those members are listed in    *)
(* EdgeChars and kept out of every normative alphabet (DESIGN 5, C12).     *)
(* ZWJ/ZWNJ are invisible: this file is generated once by a script that    *)
(* writes U+200D / U+200C explicitly.                                      *)
(***************************************************************************)
EXTENDS Naturals, Sequences

NUL      == ""            \* "no character" (Rust's unwrap_or_default of a char)
HASANTA  == "্"
CHANDRA  == "ঁ"
ANUSVARA == "ং"
VISARGA  == "ঃ"
ZWJ      == "‍"      \* U+200D
ZWNJ     == "‌"      \* U+200C
B_R      == "র"
B_Z      == "য"
AULEN    == "ৗ"           \* U+09D7 AU length mark
DANDA    == "।"

IndepVowels == {"অ","আ","ই","ঈ","উ","ঊ","ঋ","এ","ঐ","ও","ঔ"}
Kars        == {"া","ি","ী","ু","ূ","ৃ","ে","ৈ","ো","ৌ"}
LeftKars    == {"ি","ে","ৈ"}              \* left-standing signs
LigKars     == {"ু","ূ","ৃ"}              \* ligature-making signs (traditional joining)
Consonants  == {"ক","খ","গ","ঘ","ঙ","চ","ছ","জ","ঝ","ঞ","ট","ঠ","ড","ঢ","ণ","ত","থ","দ","ধ","ন",
                "প","ফ","ব","ভ","ম","য","র","ল","শ","ষ","স","হ","ৎ","ড়","ঢ়","য়"}
\* ASCII punctuation "every reading of punctuation includes" and that a layout key can emit.
Punct       == {"`","~","!","@","#","$","%","^","+","*","-","_","=","\\","|","\"","/",";",":",",",".","?",
                ">","<","(",")","[","]","{","}"}
\* Characters on which riti's tables and the chart / statement wording may differ.  Never normative.
EdgeChars   == {"ৠ","ৡ","ঌ","ৢ","ৣ","ৄ","'","&","।","॥"}
Digits      == {"০","১","২","৩","৪","৫","৬","৭","৮","৯"}

\* kar <-> independent vowel
KarToVowel == [k \in Kars |->
     CASE k = "া" -> "আ" [] k = "ি" -> "ই" [] k = "ী" -> "ঈ" [] k = "ু" -> "উ" [] k = "ূ" -> "ঊ"
       [] k = "ৃ" -> "ঋ" [] k = "ে" -> "এ" [] k = "ৈ" -> "ঐ" [] k = "ো" -> "ও" [] k = "ৌ" -> "ঔ"]

IsVowelOrKar(c) == c \in IndepVowels \/ c \in Kars

\* values of the multi-codepoint keys of the synthetic layout
REPH   == <<"র", "্">>
ROFOLA == <<"্", "র">>
ZOFOLA == <<"্", "য">>
KKHA   == <<"ক", "্", "ষ">>

Last(s)    == IF s = <<>> THEN NUL ELSE s[Len(s)]
Last2(s)   == IF Len(s) < 2 THEN NUL ELSE s[Len(s) - 1]
Front(s)   == SubSeq(s, 1, Len(s) - 1)
Insert(s, k, t) == SubSeq(s, 1, k) \o t \o SubSeq(s, k + 1, Len(s))   \* t inserted after k elements
=============================================================================
