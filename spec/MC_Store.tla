------------------------------ MODULE MC_Store ------------------------------
(***************************************************************************)
(* C09 at design level: the learned-selection store as a state machine.    *)
(*                                                                         *)
(* Abstract words: a base word "w", the suffixed word "ws" (= w + a known  *)
(* suffix) and an unrelated word "v".  Each word has candidates 0..2; the  *)
(* candidate i of "ws" is the joined form of candidate i of "w" (the data  *)
(* offers all joined forms).  State: the in-memory map of the live context *)
(* (explicit choices and - when StoreDerived - the derived entries the     *)
(* lookup saves), the file, and `own`: what the USER actually chose (the   *)
(* normative memory).  Actions: type a word and commit candidate i         *)
(* (learning iff i differs from the preselected one), type a word and      *)
(* finish (a lookup, which may save a derived entry), restart (a new       *)
(* context over the same file).                                            *)
(*                                                                         *)
(* Invariant Remembered: for every word, the index the transcript          *)
(* preselects equals the index C09 demands: the user's own choice for the  *)
(* word; else, for the suffixed word, the joined form of the user's choice *)
(* for the base; else 0.                                                   *)
(*                                                                         *)
(* With StoreDerived = TRUE (the pinned tree: derived entries are saved    *)
(* like learned ones) TLC finds the stale-derived counterexample in five   *)
(* steps: learn w=1, look at ws, learn w=2, look at ws -> 1 preselected.   *)
(* The committed configuration uses StoreDerived = FALSE (fix F21).        *)
(***************************************************************************)
EXTENDS Naturals, Sequences, FiniteSets, TLC

CONSTANTS StoreDerived,   \* TRUE: the lookup saves derived entries (pinned behaviour)
          MaxSteps

Words == {"w", "ws", "v"}
Cands == 0..2
None  == 99

VARIABLES mem,    \* live context: word -> candidate index or None
          file,   \* the file: word -> candidate index or None
          own,    \* what the user chose explicitly
          steps
vars == <<mem, file, own, steps>>

Nothing == [x \in Words |-> None]
Init == mem = Nothing /\ file = Nothing /\ own = Nothing /\ steps = 0

\* transcript of get_prev_selection: the direct entry, else (suffixed word) the joined form of the base's entry, else 0
Preselected(m, x) == IF m[x] # None THEN m[x]
                     ELSE IF x = "ws" /\ m["w"] # None THEN m["w"] ELSE 0
\* the lookup may save what it derived
AfterLookup(m, x) == IF StoreDerived /\ x = "ws" /\ m[x] = None /\ m["w"] # None THEN [m EXCEPT !["ws"] = m["w"]] ELSE m

\* C09: what must be preselected
Demanded(x) == IF own[x] # None THEN own[x]
               ELSE IF x = "ws" /\ own["w"] # None THEN own["w"] ELSE 0

Commit(x, i) ==
    LET m1 == AfterLookup(mem, x)
        p  == Preselected(mem, x)
    IN IF i # p
       THEN /\ mem' = [m1 EXCEPT ![x] = i]
            /\ file' = mem'                       \* the whole map is rewritten
            /\ own' = [own EXCEPT ![x] = i]
       ELSE /\ mem' = m1 /\ file' = file /\ own' = own      \* committing the preselected candidate changes nothing the user sees
Look(x)   == mem' = AfterLookup(mem, x) /\ UNCHANGED <<file, own>>
Restart   == mem' = file /\ UNCHANGED <<file, own>>

Next == /\ steps < MaxSteps /\ steps' = steps + 1
        /\ \/ \E x \in Words, i \in Cands : Commit(x, i)
           \/ \E x \in Words : Look(x)
           \/ Restart
Spec == Init /\ [][Next]_vars

Remembered == \A x \in Words : Preselected(mem, x) = Demanded(x)
\* a restart never changes what is preselected for a word the user made a choice for
SurvivesRestart == \A x \in Words : own[x] # None => Preselected(file, x) = own[x]
=============================================================================
