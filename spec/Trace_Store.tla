----------------------------- MODULE Trace_Store -----------------------------
(***************************************************************************)
(* impl -> spec: validation of recorded runs of the real engine against    *)
(* the store specification (C09).  The trace (ndjson, one object per API   *)
(* call, written after the call returned) is read from $TRACE.  Unlogged   *)
(* state - the learned map - evolves by the specification's own rules; a   *)
(* recorded observation that the specification does not allow stops the    *)
(* trace at that event (POSTCONDITION reports how far it got).             *)
(*                                                                         *)
(* events:  reset | restart | list(typed, cands, sel, pre, trail) |        *)
(*          commit(idx) | file(state)                                      *)
(***************************************************************************)
EXTENDS Store, Json, IOUtils, TLC, FiniteSets

Rec      == ndJsonDeserialize(IOEnv.TRACE)
Focus    == IOEnv.FOCUS          \* "C01": only "every call returned"; anything else: the store relations as well
SufList  == JsonDeserialize(IOEnv.VERIF_GEN \o "/suffix_chars.json")
SufKeys  == {SufList[i].key : i \in DOMAIN SufList}
Suffixes == [k \in SufKeys |-> SufList[CHOOSE i \in DOMAIN SufList : SufList[i].key = k].val]

VARIABLES l,        \* next trace line
          mem,      \* learned map: typed word -> [cand : the preferred candidate (stripped), typed : the text it was learned on,
                    \*                               full : the candidate text as it was committed]
          cur,      \* the list most recently shown (line number), 0 = none
          seen      \* typed text -> preselected index shown for it since the last learning commit
vars == <<l, mem, cur, seen>>

PreserveChars == {".", "?", "!", ",", ":", ";", "-", "_", ")", "}", "]", "'", "\""}
Empty == [k \in {} |-> [cand |-> <<>>, typed |-> <<>>, full |-> <<>>]]
NoneSeen == [t \in {} |-> 0]
Init == l = 1 /\ mem = Empty /\ cur = 0 /\ seen = NoneSeen

E == Rec[l]
Is(ev) == l <= Len(Rec) /\ E.ev = ev
Range(s) == {s[i] : i \in DOMAIN s}
Fail(msg) == PrintT(<<"TRACE-FAIL", l, msg>>) /\ FALSE
Require(cond, msg) == IF cond THEN TRUE ELSE Fail(msg)

Reset   == Is("reset")   /\ mem' = Empty /\ cur' = 0 /\ seen' = NoneSeen /\ l' = l + 1
\* a new context over the same user-data directory: the learned map must survive
Restart == Is("restart") /\ UNCHANGED <<mem, seen>> /\ cur' = 0 /\ l' = l + 1

\* What wraps the candidates of a typed text: the transliteration of the split's leading / trailing
\* punctuation (facts E.tlp[k+1] / E.tls[k+1] = okkhor transliteration of the first / last k typed characters),
\* curled when smart quotes are on and the word is non-empty.
PreOf(e)   == LET p == ImplSplit(e.typed, FALSE)
                  raw == Parts(e.tlp[Len(p.pre) + 1], p.word, e.tls[Len(p.trail) + 1])
              IN IF e.smart THEN SmartQuote(raw) ELSE raw

\* (F11, repaired by 821f48d: the learned choice is the raw typed English text and the word is wrapped in punctuation
\* that the transliteration converts or smart quoting curls - the raw candidate keeps the characters as typed, so it is
\* not wrap(stripped choice); what the statement demands is "that same candidate text": mem[key].full)

\* C09: the preselected candidate of a shown list
List ==
    /\ Is("list")
    /\ LET key    == KeyOf(E.typed)
           w      == PreOf(E)
           wrap(x) == w.pre \o x \o w.trail
           shown  == IF E.sel + 1 \in DOMAIN E.cands THEN E.cands[E.sel + 1] ELSE <<"<out of range>">>
       IN IF Focus = "C01" THEN TRUE
          ELSE IF key \in DOMAIN mem
          THEN \* the statement speaks about re-typing the same text
               \* (a punctuation key echoes the caller's selection byte by design - see F05 - so when the text ends
               \*  in such a character the echoed byte is accepted as well)
               Require(mem[key].typed = E.typed =>
                          \/ shown = wrap(mem[key].cand)
                          \/ (Last(E.typed) \in PreserveChars /\ E.sel = E.psel)
                          \/ shown = mem[key].full,
                       "the same text is typed again, but its learned choice is not the preselected candidate")
          ELSE LET rd == SuffixReadings(mem, key, Suffixes) IN
               Require((\E x \in rd : wrap(x) \in Range(E.cands)) =>
                          ((\E x \in rd : shown = wrap(x)) \/ (Last(E.typed) \in PreserveChars /\ E.sel = E.psel)),
                       "base word has a learned choice, the joined candidate is offered, but it is not preselected")
    \* "committing the preselected candidate changes nothing" (nor does finishing, restarting, or typing other words):
    \* only a learning commit may change what is preselected for a text
    /\ (Focus # "C01" /\ E.typed \in DOMAIN seen) =>
           Require(E.sel = seen[E.typed], "the preselected candidate of a text changed although nothing was learned in between")
    /\ seen' = [t \in DOMAIN seen \cup {E.typed} |-> IF t = E.typed THEN E.sel ELSE seen[t]]
    /\ cur' = l /\ UNCHANGED mem /\ l' = l + 1

\* committing a candidate other than the preselected one learns it; the preselected one changes nothing
\* a panic while typing or committing is never allowed (C01)
Panic == Is("panic") /\ Fail("the engine panicked") /\ UNCHANGED <<mem, cur, seen>> /\ l' = l + 1

Commit ==
    /\ Is("commit") /\ cur # 0
    /\ Require(E.panic = "", "the commit panicked")
    /\ LET L == Rec[cur] IN
       mem' = IF E.idx # L.sel /\ E.idx + 1 \in DOMAIN L.cands
              THEN [k \in DOMAIN mem \cup {KeyOf(L.typed)} |->
                        IF k = KeyOf(L.typed) THEN [cand |-> StripCand(L.cands[E.idx + 1]), typed |-> L.typed, full |-> L.cands[E.idx + 1]] ELSE mem[k]]
              ELSE mem
    \* a learning commit for the word K can change the preselection of the texts whose word is K or begins with K (K as base)
    /\ seen' = (IF E.idx # Rec[cur].sel
                THEN LET K == KeyOf(Rec[cur].typed)
                         keep == {t \in DOMAIN seen : ~(Len(KeyOf(t)) >= Len(K) /\ SubSeq(KeyOf(t), 1, Len(K)) = K)}
                     IN [t \in keep |-> seen[t]]
                ELSE seen)
    /\ cur' = 0 /\ l' = l + 1

\* the on-disk store is at all times absent or a JSON object of strings, holding exactly what was learned
File ==
    /\ Is("file")
    /\ Require(Focus = "C01" \/ E.state \in {"absent", "valid"}, "the on-disk store is not a JSON object of strings")
    /\ UNCHANGED <<mem, cur, seen>> /\ l' = l + 1

Finish == Is("finish") /\ cur' = 0 /\ UNCHANGED <<mem, seen>> /\ l' = l + 1

Next == Reset \/ Restart \/ List \/ Commit \/ File \/ Finish \/ Panic
Spec == Init /\ [][Next]_vars

\* acceptance: every line consumed
Accepted ==
    LET consumed == TLCGet("stats").diameter - 1 IN
    /\ PrintT(<<"TRACE-RESULT", consumed, Len(Rec)>>)
    /\ consumed = Len(Rec)
=============================================================================
