------------------------------ MODULE MC_Fixed ------------------------------
(***************************************************************************)
(* Bounded model-checking instance for C12 / C13 (old vowel-sign order     *)
(* off): every history of key values and backspaces up to Depth over an    *)
(* alphabet with one representative of every class the rules distinguish,  *)
(* all ten vowel signs and the multi-code-point key values, under all 16   *)
(* settings of {auto vowel, auto chandrabindu, traditional joining, old    *)
(* reph}.                                                                  *)
(*  - INVARIANT ImplRefinesProp : the transcript satisfies the normative   *)
(*    relation at every step (design-level check).                         *)
(*  - INVARIANT Emit : prints every maximal behaviour as one JSON line     *)
(*    {"o":..,"steps":[{op,val,allow,model}..]} for replay through the     *)
(*    real engine (spec -> impl binding).                                  *)
(***************************************************************************)
EXTENDS FixedCompose, TLC, Json

CONSTANTS Depth, Alphabet     \* Alphabet: "full" | "small" | "classes" | "reph" | "rephclasses" | "rephcons"

VARIABLES o, s, h
vars == <<o, s, h>>

FullValues == {<<"ক">>, <<"র">>, <<"আ">>, <<HASANTA>>, <<CHANDRA>>, <<AULEN>>, <<ZWNJ>>, <<"(">>, <<"১">>,
               <<ANUSVARA>>, REPH, ROFOLA, ZOFOLA, KKHA} \cup {<<k>> : k \in Kars}
\* C13: deeper histories over the characters the reph scan distinguishes
RephValues == {<<"ক">>, <<"র">>, <<"আ">>, <<"া">>, <<"ি">>, <<HASANTA>>, <<CHANDRA>>, <<"(">>, <<ZWNJ>>,
               REPH, ROFOLA, ZOFOLA}
\* deeper histories over the characters the priority chain itself distinguishes (rule interactions need four and more keys)
SmallValues == {<<"ক">>, <<"া">>, <<"ি">>, <<"ু">>, <<HASANTA>>, <<CHANDRA>>, <<"১">>, <<"(">>}
\* class sweep: EVERY member of every class the rules name (all punctuation marks, consonants, vowels, signs, digits), short histories
ClassValues == {<<c>> : c \in Punct \cup Consonants \cup IndepVowels \cup Kars \cup Digits}
               \cup {<<HASANTA>>, <<CHANDRA>>, <<AULEN>>, <<ZWNJ>>, <<ANUSVARA>>, <<VISARGA>>, REPH, ROFOLA, ZOFOLA, KKHA}
\* C13 class sweep: every vowel sign (incl. the two-part ones), the final signs and the other characters the scan meets,
\* shorter histories ending in the reph key
RephClassValues == {<<"ক">>, <<"র">>, <<"ত">>, <<"আ">>, <<HASANTA>>, <<CHANDRA>>, <<ANUSVARA>>, <<VISARGA>>, <<ZWNJ>>, <<"(">>, <<"১">>,
                    <<"ৎ">>, REPH, ROFOLA, ZOFOLA} \cup {<<k>> : k \in Kars}
\* C13 consonant sweep: EVERY consonant (the scan asks "is this a consonant?" of each character it meets)
RephConsValues == {<<c>> : c \in Consonants} \cup {<<HASANTA>>, <<"া">>, <<"ো">>, REPH}
Values == IF Alphabet = "full" THEN FullValues ELSE IF Alphabet = "small" THEN SmallValues
          ELSE IF Alphabet = "classes" THEN ClassValues
          ELSE IF Alphabet = "rephclasses" THEN RephClassValues
          ELSE IF Alphabet = "rephcons" THEN RephConsValues ELSE RephValues

OptSet == IF Alphabet \in {"full", "small", "classes"}
          THEN [vowel : BOOLEAN, chandra : BOOLEAN, kar : BOOLEAN, reph : BOOLEAN, karorder : {FALSE}]
          \* C13 quantifies over all other option settings, old vowel-sign order included (a sign may be waiting, hidden)
          ELSE [vowel : BOOLEAN, chandra : BOOLEAN, kar : BOOLEAN, reph : {TRUE}, karorder : BOOLEAN]

Init == o \in OptSet /\ s = Idle /\ h = <<>>

KeyStep(v) ==
    /\ s' = ImplKey(s, v, o)
    /\ h' = Append(h, [op |-> "key", val |-> v, allow |-> PropKeySet(s.buf, v, o),
                       model |-> IF s'.crash THEN <<"CRASH">> ELSE s'.buf,
                       \* with old vowel-sign order on only the reph key is normative here (C13); the rest is C14's subject
                       norm |-> IF o.karorder THEN (v = REPH /\ o.reph) ELSE NormativeKey(s.buf, v)])

BsStep ==
    /\ s.buf # <<>>
    /\ s' = ImplBackspace(s)
    /\ h' = Append(h, [op |-> "bs", val |-> <<>>, allow |-> {PropBackspace(s.buf)}, model |-> s'.buf,
                       norm |-> ~o.karorder])        \* (with old order on a backspace may discard a waiting sign instead: C14)

\* (reph alphabets: only histories ending in the reph key are emitted, so the last step of a full-length history is that key)
LastStepOK(v) == /\ (Alphabet \in {"reph", "rephclasses", "rephcons"} /\ Len(h) = Depth - 1) => v = REPH
                 \* (class sweep: every pair of class members, followed - thorough tier - by one of the 8 values the chain distinguishes)
                 /\ (Alphabet = "classes" /\ Len(h) >= 2) => (v = <<>> \/ v \in SmallValues)
Next == /\ Len(h) < Depth /\ ~s.crash
        /\ ((\E v \in Values : LastStepOK(v) /\ KeyStep(v)) \/ (LastStepOK(<<>>) /\ BsStep))
        /\ UNCHANGED o

Spec == Init /\ [][Next]_vars

\* design-level: the transcript of the implementation satisfies C12/C13 at every step
ImplRefinesProp == h # <<>> => LET e == h[Len(h)] IN ~s.crash /\ (e.norm => e.model \in e.allow)

\* vacuity guard: an orthographic consequence of the rules (old order off)
AutoVowelInv == o.vowel /\ ~o.reph /\ ~o.chandra =>
    \A i \in 1..Len(s.buf) : s.buf[i] \in Kars =>
        /\ i > 1
        /\ s.buf[i - 1] \notin IndepVowels /\ s.buf[i - 1] \notin Kars /\ s.buf[i - 1] \notin Punct

\* "full": every maximal history.  "reph": every history that ends with the reph key (each reph event of
\* each history is then replayed exactly once, as the last step of its prefix).
EmitWhen == IF Alphabet \in {"full", "small", "classes"} THEN Len(h) = Depth \/ s.crash
            ELSE h # <<>> /\ h[Len(h)].op = "key" /\ h[Len(h)].val = REPH
Emit == EmitWhen =>
           PrintT(<<"REPLAY", ToJson([mc |-> "MC_Fixed", o |-> o, steps |-> h])>>)
=============================================================================
