------------------------------- MODULE Layout -------------------------------
(***************************************************************************)
(* C04: what a fixed-layout key emits.  NORMATIVE, written from the        *)
(* statement:                                                              *)
(*   - a published, non-keypad key emits the layout file's entry           *)
(*     "<entry>_AltGr" when modifier bit 1 (AltGr) is set, "<entry>_Normal"*)
(*     otherwise; Shift (bit 0) and stray high bits select nothing;        *)
(*   - a keypad key emits its entry only while the number-pad option is on;*)
(*   - empty / missing entries and codes outside riti.h emit nothing.      *)
(* The key table (name, numeric code, entry name) is NOT typed in here: it *)
(* is read from work/gen/keycodes.json, which bin/gen.py derives from      *)
(* include/riti.h at check time; the layouts are read by TLC itself from   *)
(* the layout JSON (independent of riti's loader).                         *)
(***************************************************************************)
EXTENDS Naturals, Sequences, FiniteSets, Json, IOUtils, TLC

GenDir   == IOEnv.VERIF_GEN
KeyCodes == JsonDeserialize(GenDir \o "/keycodes.json")      \* sequence of [name, code, ch, entry, numpad]
Layouts  == [probhat |-> JsonDeserialize(GenDir \o "/probhat_layout.json"),
             synth   |-> JsonDeserialize(GenDir \o "/synth_layout.json")]

Published == {KeyCodes[i].code : i \in DOMAIN KeyCodes}
ByCode    == [c \in Published |-> KeyCodes[CHOOSE i \in DOMAIN KeyCodes : KeyCodes[i].code = c]]

Entry(L, name) == IF name \in DOMAIN L THEN L[name] ELSE ""
AltGr(m)       == (m \div 2) % 2 = 1

Expected(L, code, m, numpad) ==
    IF code \notin Published THEN ""
    ELSE LET k == ByCode[code] IN
         IF k.entry = "" THEN ""
         ELSE IF k.numpad THEN (IF numpad THEN Entry(L, k.entry) ELSE "")
         ELSE Entry(L, k.entry \o (IF AltGr(m) THEN "_AltGr" ELSE "_Normal"))
=============================================================================
