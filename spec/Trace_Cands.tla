----------------------------- MODULE Trace_Cands -----------------------------
(***************************************************************************)
(* impl -> spec: recorded candidate lists of the real engine, with facts   *)
(* from independent oracles, validated against Candidates.tla.  The        *)
(* constant Focus selects the property whose conjuncts are enforced, so a  *)
(* rejection is attributed to one property.                                *)
(***************************************************************************)
EXTENDS Candidates, Json, IOUtils, TLC

Rec   == ndJsonDeserialize(IOEnv.TRACE)
Focus == IOEnv.FOCUS

VARIABLE l
E == Rec[l]
Fail(msg) == PrintT(<<"TRACE-FAIL", l, msg>>) /\ FALSE
Require(cond, msg) == IF cond THEN TRUE ELSE Fail(msg)

Init == l = 1

\* a list must at least be a list (C02 shape)
Shape(e) == e.kind = "full" /\ Len(e.cands) >= 1

PList ==
    /\ l <= Len(Rec) /\ E.ev = "plist"
    /\ Require(Focus = "C01" \/ Shape(E), "not a non-empty list-style suggestion")
    /\ IF ~WordAgrees(E) THEN TRUE      \* facts are about another word than the specification's split: skip
       ELSE CASE Focus = "C07" ->
                    /\ Require(NoDuplicates(E), "C07: a candidate text occurs twice")
                    /\ Require(AcFirst(E), "C07: the auto-correct entry is not first")
                    /\ Require(NonDecreasing(E, 1, 0), "C07: dictionary-derived candidates are not in non-decreasing edit distance")
                    /\ Require(TranslitAfterDict(E), "C07: the plain transliteration precedes a dictionary word")
                    /\ Require(EnglishLast(E), "C07: the raw English text is not last")
                    /\ Require(NoEmojiBeforeExact(E), "C07: an emoji precedes the dictionary word that equals the transliteration")
              [] Focus = "C08" ->
                    /\ Require(PropJustified(E), "C08: a candidate is not justified by any source")
                    /\ Require(PropSuffixComplete(E), "C08: a joined form of a direct candidate of the base is missing")
              [] Focus = "C16" -> Require(PropAnsi(E), "C16: ANSI gate / pre-edit encoding")
              [] Focus = "C18" -> Require(PropEmoji(E), "C18: emoticon / emoji-name candidates")
              [] Focus = "C03" -> Require(PropHasTranslit(E), "C03: the transliteration is not a candidate")
              [] OTHER -> TRUE
    /\ l' = l + 1

FList ==
    /\ l <= Len(Rec) /\ E.ev = "flist"
    /\ Require(Focus = "C01" \/ Shape(E), "not a non-empty list-style suggestion")
    /\ IF ~FWordAgrees(E) THEN TRUE
       ELSE CASE Focus = "C15" ->
                    /\ Require(FFirstIsComposed(E), "C15: the first candidate is not the composed text (with curling)")
                    /\ Require(FCompletions(E), "C15: a candidate is not a dictionary word beginning with the typed word")
                    /\ Require(FNonDecreasing(E, 1, 0), "C15: candidates are not in non-decreasing edit distance")
                    /\ Require(FAtMostNine(E), "C15: more than nine candidates")
                    /\ Require(FNoRepeats(E), "C15: a candidate repeats")
                    /\ Require(FEnglishLast(E), "C15: the raw key text is not the last candidate")
              [] Focus = "C16" -> Require(FPropAnsi(E), "C16: ANSI gate / pre-edit encoding (fixed)")
              [] Focus = "C18" -> Require(FPropEmoji(E), "C18: emoticon / Bengali emoji-name candidates (fixed)")
              [] OTHER -> TRUE
    /\ l' = l + 1

\* C16, data-exhaustive: one text through the pre-edit accessor of a returned suggestion in ANSI mode
\* Known finding F18: the third-party Bijoy encoder panics on the vowel signs it has no Bijoy form for
\* (U+09C4, U+09E2, U+09E3 and the other code points listed in KnownUnencodable) - accepted explicitly, reported.
Enc ==
    /\ l <= Len(Rec) /\ E.ev = "enc"
    /\ IF Focus # "C16" THEN TRUE
       ELSE IF ~E.readable THEN Require(E.known_unencodable /\ PrintT(<<"TRACE-KNOWN", "F18", l>>), "C16: the pre-edit accessor panicked in ANSI mode")
       ELSE /\ Require(~E.pre_bn, "C16: the ANSI pre-edit text still contains a Bengali code point")
            /\ Require(E.pre_bijoy, "C16: the ANSI pre-edit text is not the Bijoy-2000 encoding of the candidate")
    /\ l' = l + 1

\* a panic while typing an in-contract text is never allowed
Panic == l <= Len(Rec) /\ E.ev = "panic" /\ Fail("the engine panicked") /\ l' = l + 1
Reset == l <= Len(Rec) /\ E.ev \in {"reset", "noise"} /\ l' = l + 1     \* noise: another word composed in the same context

\* the facts about the dictionary that MC_FixedList!DataOK assumes (consecutive-only de-duplication)
DictFacts ==
    /\ l <= Len(Rec) /\ E.ev = "dictfacts"
    /\ (Focus = "C15" => /\ Require(E.exact_first = 0, "C15: a dictionary table lists a longer hit before the typed word's own entry (the list would repeat the typed word)")
                          /\ Require(E.split_dups = 0, "C15: a dictionary table lists a word twice with another hit in between (the list would repeat it)"))
    /\ l' = l + 1

Next == PList \/ FList \/ Enc \/ Panic \/ Reset \/ DictFacts
Spec == Init /\ [][Next]_l

Accepted ==
    LET consumed == TLCGet("stats").diameter - 1 IN
    /\ PrintT(<<"TRACE-RESULT", consumed, Len(Rec)>>)
    /\ consumed = Len(Rec)
=============================================================================
