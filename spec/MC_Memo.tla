------------------------------ MODULE MC_Memo ------------------------------
(***************************************************************************)
(* C05: the suggestion for a composition is a function of the surviving    *)
(* text (and configuration, data, learned selections) - not of how the     *)
(* text was reached.                                                       *)
(*                                                                         *)
(* Model: the per-context memo of the phonetic suggestion engine.  The     *)
(* memo is keyed by the WORD PART of the typed text, filled on first       *)
(* sight, never evicted; suffix candidates for a word w are built from the *)
(* memo entries of those proper prefixes w[1..i] whose remainder is a      *)
(* known suffix.  The result therefore depends on the history only through *)
(* WHICH of these prefixes are in the memo.  Invariant MemoTransparent:    *)
(* for every reachable (history, text) the relevant prefixes are in the    *)
(* memo exactly when they are in the memo of a brand-new context into      *)
(* which the surviving text is typed directly.                             *)
(*                                                                         *)
(* Histories: up to MaxPrior earlier words (typed and finished) in the     *)
(* same context, then an edit path made of "type the next character of the *)
(* target", "type a wrong character", "backspace".  Every history whose    *)
(* surviving text is a non-empty prefix of the target is emitted as a pair *)
(* (warm/edited context, interleaved with a second context) vs (fresh).    *)
(***************************************************************************)
EXTENDS Split, TLC, Json, FiniteSets

CONSTANTS MaxEdits,      \* length bound of the edit path
          MaxPrior,      \* number of earlier words
          Cfgs           \* "quick" | "all"

Chars(s) == s   \* words are written as tuples of one-character strings

\* (the Avro transliteration is case sensitive: kI / paTa / ekTa differ from ki / pata / ekta)
Bases    == {<<"a","s">>, <<"o","n","n","o">>, <<"a",":">>, <<"k","k","h","e","t">>, <<"k","I">>, <<"p","a","T","a">>, <<"e","k","T","a">>}
Sfx      == IF Cfgs = "quick" THEN {<<>>, <<"e">>, <<"g","u","l","o">>, <<"r">>} ELSE {<<>>, <<"e">>, <<"g","u","l","o">>, <<"r">>, <<"e","r">>}
Pres     == IF Cfgs = "quick" THEN {<<>>, <<"(">>} ELSE {<<>>, <<"(">>, <<"\"">>}
Posts    == IF Cfgs = "quick" THEN {<<>>, <<".">>, <<":">>, <<"`">>} ELSE {<<>>, <<".">>, <<":">>, <<"`">>, <<"\"">>}
\* the suffix keys of suffix.json that can occur as remainders of the targets above
SuffixKeys == {<<"e">>, <<"g","u","l","o">>, <<"r">>, <<"e","r">>, <<"o">>, <<"l","o">>, <<"t">>, <<"s">>}
PriorWords == {<<"a","s">>, <<"o","n","n","o","g","u","l","o">>, <<"a",":">>, <<"(","a","s",")">>, <<"k","k","h","e","t","r">>,
               <<"k","i">>, <<"p","a","t","a">>}

Targets == {p \o b \o s \o q : p \in Pres, b \in Bases, s \in Sfx, q \in Posts}

VARIABLES target, prior, start, path, pos, junk, memo
vars == <<target, prior, start, path, pos, junk, memo>>

WordOf(text) == ImplSplit(text, FALSE).word
RECURSIVE MemoOfTyping(_, _, _)
\* memo after typing text character by character starting from memo m (k = characters typed so far)
MemoOfTyping(text, k, m) == IF k > Len(text) THEN m ELSE MemoOfTyping(text, k + 1, m \cup {WordOf(SubSeq(text, 1, k))})

\* the wrong character: the next character of the target in the other letter case when it is a letter, "x" otherwise
Lower == <<"a","b","c","d","e","f","g","h","i","j","k","l","m","n","o","p","q","r","s","t","u","v","w","x","y","z">>
Upper == <<"A","B","C","D","E","F","G","H","I","J","K","L","M","N","O","P","Q","R","S","T","U","V","W","X","Y","Z">>
SwapCase(c) == IF \E i \in 1..26 : Lower[i] = c THEN Upper[CHOOSE i \in 1..26 : Lower[i] = c]
               ELSE IF \E i \in 1..26 : Upper[i] = c THEN Lower[CHOOSE i \in 1..26 : Upper[i] = c] ELSE "x"
JunkAt(p, k) == IF k = 1 /\ p < Len(target) THEN SwapCase(target[p + 1]) ELSE "x"
JunkSeq(p, n) == [i \in 1..n |-> JunkAt(p, i)]
Cur == SubSeq(target, 1, pos) \o JunkSeq(pos, junk)

Init == /\ target \in Targets
        /\ prior \in UNION {[1..n -> PriorWords] : n \in 0..MaxPrior}
        /\ start \in {n \in 0..Len(target) : n % 2 = 0 \/ n = Len(target)}   \* the first `start` characters are typed plainly
        /\ path = <<>> /\ pos = start /\ junk = 0
        /\ memo = MemoOfTyping(SubSeq(target, 1, start), 1, UNION {MemoOfTyping(prior[i], 1, {}) : i \in 1..Len(prior)})

Fwd  == /\ junk = 0 /\ pos < Len(target)
        /\ pos' = pos + 1 /\ junk' = junk /\ path' = Append(path, target[pos + 1])
        /\ memo' = memo \cup {WordOf(SubSeq(target, 1, pos + 1))}
Junk == /\ junk < 2 /\ junk' = junk + 1 /\ pos' = pos /\ path' = Append(path, JunkAt(pos, junk + 1))
        /\ memo' = memo \cup {WordOf(SubSeq(target, 1, pos) \o JunkSeq(pos, junk + 1))}
Back == /\ pos + junk > 0
        /\ IF junk > 0 THEN junk' = junk - 1 /\ pos' = pos ELSE junk' = junk /\ pos' = pos - 1
        /\ path' = Append(path, "<bs>")
        /\ memo' = IF pos' + junk' = 0 THEN memo       \* backspace to empty: nothing is looked up
                   ELSE memo \cup {WordOf(SubSeq(target, 1, pos') \o JunkSeq(pos', junk'))}
\* a key without a character (keypad Enter, code 3612 of riti.h) in the middle of the word: nothing changes, the list is
\* computed again for the same text (at most one per path)
NoChar == /\ pos + junk > 0 /\ "<nochar>" \notin {path[i] : i \in 1..Len(path)}
          /\ Len(path) >= MaxEdits - 2 /\ Len(prior) = 0      \* (as one of the last two steps of a path, without earlier words)
          /\ path' = Append(path, "<nochar>") /\ UNCHANGED <<pos, junk, memo>>
Next == Len(path) < MaxEdits /\ (Fwd \/ Junk \/ Back \/ NoChar) /\ UNCHANGED <<target, prior, start>>
Spec == Init /\ [][Next]_vars

\* the prefixes of the current word the suffix path looks up
Relevant(w) == {SubSeq(w, 1, i) : i \in {j \in 1..(Len(w) - 1) : SubSeq(w, j + 1, Len(w)) \in SuffixKeys}}
MemoTransparent ==
    (pos + junk > 0) =>
        LET w == WordOf(Cur)
            fresh == MemoOfTyping(Cur, 1, {})
        IN /\ w \in memo /\ w \in fresh
           /\ (Len(w) > 2 => \A pre \in Relevant(w) : (pre \in memo) = (pre \in fresh))

PC(eng, smart, ansi) == [layout |-> "phonetic", psug |-> TRUE, fsug |-> FALSE, english |-> eng, ansi |-> ansi, smart |-> smart,
                          vowel |-> FALSE, chandra |-> FALSE, kar |-> FALSE, reph |-> FALSE, numpad |-> TRUE, karorder |-> FALSE, db |-> TRUE]
CfgSet == IF Cfgs = "quick" THEN {PC(TRUE, TRUE, FALSE)} ELSE {PC(TRUE, TRUE, FALSE), PC(FALSE, FALSE, TRUE), PC(FALSE, FALSE, FALSE)}

\* the scenario: A = warm context (earlier words, then the edit path, a second context used in between),
\* B = brand-new context into which the surviving text is typed directly; same selection byte (0) throughout
TypeStep(chars, c) == [op |-> "type", text |-> chars, sel |-> 0, ctx |-> c, ctrl |-> FALSE]
PriorSteps == [i \in 1..(2 * Len(prior)) |->
                 IF i % 2 = 1 THEN TypeStep(prior[(i + 1) \div 2], 1)
                 ELSE [op |-> "finish", text |-> <<>>, sel |-> 0, ctx |-> 1, ctrl |-> FALSE]]
\* the other context of the process goes FIRST: it types the same characters just before the main context does
\* (whoever computes something for a spelling first must not decide what the other one sees); the harness gives it
\* the same configuration (id 2), no database directory (id 3) or other options (id 4)
Other == 2 + ((Len(target) + Len(path) + Len(prior)) % 3)
EditSteps == [i \in 1..(2 * Len(path)) |->
                 IF i % 2 = 0
                 THEN (IF path[i \div 2] = "<bs>" THEN [op |-> "bs", text |-> <<>>, sel |-> 0, ctx |-> 1, ctrl |-> FALSE]
                       ELSE IF path[i \div 2] = "<nochar>" THEN [op |-> "keycode", text |-> <<>>, sel |-> 0, ctx |-> 1, ctrl |-> FALSE, code |-> 3612]
                       ELSE TypeStep(<<path[i \div 2]>>, 1))
                 ELSE (IF path[(i + 1) \div 2] \in {"<bs>", "<nochar>"} THEN TypeStep(<<"k">>, Other) ELSE TypeStep(<<path[(i + 1) \div 2]>>, Other))]
RunA(c) == <<[op |-> "new", cfg |-> c]>> \o PriorSteps \o <<TypeStep(SubSeq(target, 1, start), Other), TypeStep(SubSeq(target, 1, start), 1)>> \o EditSteps
RunB(c) == <<[op |-> "new", cfg |-> c], TypeStep(Cur, 1)>>
Scenario(c) ==
    [mc |-> "Script", site |-> "pure", variants |-> 1, reuse |-> FALSE, warm |-> "A", fresh_cache |-> "B",
     runs |-> [A |-> RunA(c), B |-> RunB(c)],
     checks |-> <<[k |-> "eq", a |-> <<"A", Len(RunA(c)) - 1>>, b |-> <<"B", 1>>, f |-> "render"]>>]

\* emitted when the surviving text is a non-empty prefix of the target and the path did some editing or the
\* context is warm (plain typing into a fresh context is the reference itself)
Edited == \E i \in 1..Len(path) : path[i] = "<bs>"
Emit == (junk = 0 /\ pos > 0 /\ path # <<>> /\ path[Len(path)] # "<bs>" /\ (Edited \/ prior # <<>> \/ "<nochar>" \in {path[i] : i \in 1..Len(path)})) =>
           \A c \in CfgSet : PrintT(<<"REPLAY", ToJson(Scenario(c))>>)
\* ... and the histories that END in a backspace (the suggestion is recomputed by the backspace)
EmitBs == (junk = 0 /\ pos > 0 /\ path # <<>> /\ path[Len(path)] = "<bs>") =>
           \A c \in CfgSet : PrintT(<<"REPLAY", ToJson(Scenario(c))>>)
=============================================================================
