------------------------------ MODULE MC_Layout ------------------------------
(***************************************************************************)
(* The complete finite space of C04: 65536 key codes x modifier patterns   *)
(* (0..7 and stray-high-bit patterns) x number-pad option x 2 layouts, as  *)
(* initial states without transitions.  Checks the consequences of the     *)
(* statement on the model and emits the sparse table of non-empty          *)
(* expectations, against which the harness compares the real engine on     *)
(* every point of the same space.                                          *)
(***************************************************************************)
EXTENDS Layout

VARIABLES lay, code, m, numpad
vars == <<lay, code, m, numpad>>

Mods == 0..7 \cup {128, 253, 255}

Init == /\ lay \in {"probhat", "synth"}
        /\ code \in 0..65535
        /\ m \in Mods
        /\ numpad \in BOOLEAN
Next == UNCHANGED vars
Spec == Init /\ [][Next]_vars

E(mm, np) == Expected(Layouts[lay], code, mm, np)

ShiftInsensitive    == E(m, numpad) = E(IF m % 2 = 1 THEN m - 1 ELSE m + 1, numpad)
HighBitsInsensitive == E(m, numpad) = E(m % 4, numpad)
OnlyPublished       == E(m, numpad) # "" => code \in Published
NumpadGating        == (code \in Published /\ ByCode[code].numpad /\ ~numpad) => E(m, numpad) = ""
\* every published key with a character reaches some entry of the bundled layout (vacuity guard)
Reaches             == (lay = "probhat" /\ code \in Published /\ ByCode[code].entry # "" /\ numpad)
                           => E(m, numpad) # ""

Emit == (E(m, numpad) # "" /\ m \in 0..3) =>
           PrintT(<<"REPLAY", ToJson([mc |-> "MC_Layout", layout |-> lay, code |-> code, mod |-> m,
                                      numpad |-> numpad, value |-> E(m, numpad)])>>)
=============================================================================
