-------------------------------- MODULE Store --------------------------------
(***************************************************************************)
(* The learned-selection store (C09, C10): a map from the typed word to    *)
(* the candidate the user preferred, kept in memory and in                 *)
(* phonetic-candidate-selection.json.                                      *)
(*                                                                         *)
(* NORMATIVE operators on character sequences:                             *)
(*   KeyOf(typed)      the word under which a choice for `typed` is stored *)
(*   StripCand(cand)   the candidate without its wrapping punctuation      *)
(*   Join(base, sfx)   base word joined to the Bengali form of a suffix    *)
(*   Expected(mem, typed, pre, trail)  the candidate text that must be     *)
(*                     preselected when `typed` is typed while `mem` holds *)
(* The joining rules are the statement of C08/C09.                         *)
(***************************************************************************)
EXTENDS Split, Chars

\* typed word -> key: the word part (':' is not punctuation when typing)
KeyOf(typed)    == ImplSplit(typed, FALSE).word
\* candidate -> stored text: the word part (':' counts as punctuation in a candidate)
\* (curly quotes are wrapping punctuation the engine itself put there)
StripCand(cand) == ImplSplit([i \in 1..Len(cand) |-> Uncurl(cand[i])], TRUE).word

VowelsAndSigns == IndepVowels \cup Kars
Join(base, sfx) ==
    IF base = <<>> \/ sfx = <<>> THEN base \o sfx
    ELSE IF Last(base) \in VowelsAndSigns /\ sfx[1] \in Kars THEN base \o <<"য়">> \o sfx
    ELSE IF Last(base) = "ৎ" THEN Front(base) \o <<"ত">> \o sfx
    ELSE IF Last(base) = ANUSVARA THEN Front(base) \o <<"ঙ">> \o sfx
    ELSE base \o sfx

\* Suffixes: a function from suffix key (character sequence) to its Bengali form
\* All ways to read word = base . suffixkey with a learned base
SuffixReadings(mem, word, Suffixes) ==
    {Join(mem[SubSeq(word, 1, i)].cand, Suffixes[SubSeq(word, i + 1, Len(word))]) :
        i \in {j \in 1..(Len(word) - 1) : SubSeq(word, 1, j) \in DOMAIN mem /\ SubSeq(word, j + 1, Len(word)) \in DOMAIN Suffixes}}
=============================================================================
