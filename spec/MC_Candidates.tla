--------------------------- MODULE MC_Candidates ---------------------------
(***************************************************************************)
(* Design-level model of candidate-list ASSEMBLY (C07, C16 gate, C18       *)
(* order): the transcript of PhoneticSuggestion::suggest /                 *)
(* suggestion_with_dict and of FixedMethod::create_dictionary_suggestion - *)
(* items gathered from five sources, the four-variant Rank comparator      *)
(* (impl Ord for Rank), the duplicate check where the code has it, the     *)
(* stable sort (Rust's sort is an insertion sort for the <= 20 items these *)
(* lists have) - checked against the order relation of the statements for  *)
(* EVERY small multiset of source facts and every option setting.          *)
(*                                                                         *)
(* Facts are abstract: texts come from a universe of four tokens so that   *)
(* coincidences (transliteration = a dictionary word, English text = the   *)
(* transliteration, ...) occur; distances from {0, 10, 20}; emoji ranks    *)
(* 1..MaxEmoji.                                                            *)
(***************************************************************************)
EXTENDS Ranking, TLC

CONSTANTS MaxDict, MaxEmoji

\* ----- the scenario: source facts ------------------------------------------------
VARIABLES ac,        \* "" or the text of the auto-correct entry
          dict,      \* sequence of [t, d] dictionary / suffix-built hits, in table order
          translit,  \* text of the plain transliteration
          emoticon,  \* TRUE: the typed text is an emoticon (its emoji is "e1")
          emojis,    \* number of emoji of the name (0 = not a name); texts "e1".."en"
          raw,       \* the raw typed text
          english, ansi
vars == <<ac, dict, translit, emoticon, emojis, raw, english, ansi>>

\* two steps, so that TLC's workers share the enumeration: first everything but the dictionary hits, then the hits
Init == /\ ac \in {""} \cup Texts
        /\ dict = <<>>
        /\ translit \in Texts
        /\ emoticon \in BOOLEAN /\ emojis \in 0..MaxEmoji
        /\ raw \in {"t4", "r"}                      \* "t4": coincides with a Bengali-side token (texts like a lone backslash)
        /\ english \in BOOLEAN /\ ansi \in BOOLEAN
Next == /\ dict = <<>>
        /\ dict' \in UNION {[1..n -> [t : Texts, d : Dists]] : n \in 1..MaxDict}
        /\ UNCHANGED <<ac, translit, emoticon, emojis, raw, english, ansi>>
Spec == Init /\ [][Next]_vars

EnglishOn == english /\ ~ansi        \* the option is masked by ANSI (config getter)

\* ----- transcript of the phonetic assembly (after the repairs F14 / F15) -----------
ImplAssemblePhonetic ==
    LET cached == (IF ac # "" THEN <<First(ac)>> ELSE <<>>) \o [i \in 1..Len(dict) |-> Other(dict[i].t, dict[i].d, "dict")]
        l1 == PushAllChecked(<<>>, cached)                          \* middle items, duplicate-checked
        l2 == PushChecked(l1, Last(translit, 2, "translit"))      \* last item: the transliteration
        l3 == IF ansi THEN l2
              ELSE IF emoticon THEN Append(PushChecked(l2, Last(raw, 1, "emoticon")), Emoji("e1", 1))
              ELSE l2 \o [i \in 1..emojis |-> Emoji(EmojiText[i], i)]
        l4 == IF EnglishOn /\ ~(emoticon /\ ~ansi) THEN PushChecked(l3, Last(raw, 3, "english")) ELSE l3
    IN SortRanks(l4)

L == ImplAssemblePhonetic
Pos(p(_)) == {i \in 1..Len(L) : p(L[i])}

\* ----- the order relation of C07 on the assembled list ----------------------------
NoDuplicates == \A i, j \in 1..Len(L) : i # j => L[i].t # L[j].t
AcFirst      == ac # "" => L[1].t = ac
DictNonDecreasing ==
    \A i, j \in 1..Len(L) : (i < j /\ L[i].v = "Other" /\ L[j].v = "Other") => L[i].n <= L[j].n
TranslitAfterDict ==
    \A i, j \in 1..Len(L) : (L[i].src = "translit" /\ L[j].v = "Other") => j < i
EnglishLast  == \A i \in 1..Len(L) : L[i].src = "english" => i = Len(L)
NoEmojiBeforeExact ==
    \A i, j \in 1..Len(L) : (L[i].v = "Emoji" /\ L[j].v = "Other" /\ L[j].t = translit /\ L[j].n = 0 /\ ~emoticon) => j < i
NeverEmpty   == Len(L) >= 1
\* C16 gate: nothing emoji-, emoticon- or English-derived in ANSI mode
AnsiGate     == ansi => \A i \in 1..Len(L) : L[i].src \notin {"emoji", "emoticon", "english"}
\* C18: the emoji of a name keep the table order
EmojiTableOrder ==
    \A i, j \in 1..Len(L) : (i < j /\ L[i].v = "Emoji" /\ L[j].v = "Emoji") => L[i].n < L[j].n
\* the comparator is a total pre-order on the ranks these lists contain (it stops being one as soon as an emoji rank
\* reaches a distance value: Emoji(1) = Emoji(10) = Other(10) but Emoji(1) < Other(10))
CmpTransitiveHere ==
    \A a, b, c \in {L[i] : i \in 1..Len(L)} :
        (ImplCmp(a, b) <= 0 /\ ImplCmp(b, c) <= 0 /\ ImplCmp(a, b) + ImplCmp(b, c) < 0) => ImplCmp(a, c) < 0
=============================================================================
