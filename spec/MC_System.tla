------------------------------ MODULE MC_System ------------------------------
(***************************************************************************)
(* The context together with its per-user files, as ONE state machine:     *)
(* what MC_Update (memo / stamp of the user's auto-correct file), MC_Store *)
(* (learned choices in memory and on disk) and Riti.tla (method object     *)
(* replaced on a layout change) say separately, composed, with the events  *)
(* free to interleave:                                                     *)
(*   Word(w, how)   a word typed while idle and ended by finish, or by a   *)
(*                  commit of another candidate than the preselected one   *)
(*                  (a learning commit; phonetic method with suggestions)  *)
(*   Edit / Break   the environment replaces, damages or deletes the       *)
(*                  user's auto-correct file (newer modification time)     *)
(*   Update(c)      update-engine on the idle context                      *)
(*   Restart        the context is dropped; a new one over the same files  *)
(*                                                                         *)
(* NORMATIVE (C05 + C06 + C09 + C11 in one relation): whenever the context *)
(* is in step with its files (no edit since the last update / restart),    *)
(* the answer it gives for ANY word is the answer of a context created at  *)
(* that moment with the same configuration over the same files:            *)
(*     ShadowEquiv == Synced => \A w : Answer(w) = FreshAnswer(w)          *)
(* DESCRIPTIVE: the transcript of src/context.rs update_engine,            *)
(* src/phonetic/method.rs new / update_engine / candidate_committed and    *)
(* the memo of src/phonetic/suggestion.rs (switches reproduce the pinned   *)
(* defects F08 and F22 - TLC then reports a counterexample).               *)
(*                                                                         *)
(* Every behaviour of the given length is emitted as a scenario for the    *)
(* generic executor: run A = the history followed by probe words, run B =  *)
(* a context created afterwards over the same directory typing the same    *)
(* probes; the renderings must be equal.                                   *)
(***************************************************************************)
EXTENDS Naturals, Sequences, FiniteSets, TLC, Json

CONSTANTS Depth,            \* events per behaviour
          Emitting,         \* FALSE: design level only
          KeepMemo,         \* TRUE: transcript of the pinned tree before fix F08 (the memo survives a reload)
          GoneKeepsLoaded   \* TRUE: ... before fix F22 (a deleted file leaves the loaded entries in place)

Quoted   == "\"as'"
Words    == {"as", "help", Quoted, "asgulo"}
EditWords == {"as", "help"}
\* memo and learned map are keyed by the WORD PART (wrapping punctuation stripped): the quoted word shares the key "as"
Keys == {"as", "help", "asgulo"}
KeyOf(w) == IF w = Quoted THEN "as" ELSE w
\* the keys whose memo entry typing w goes through (every prefix of w was the composition on the way)
Touches(w) == IF w = "asgulo" THEN {"as", "asgulo"} ELSE {KeyOf(w)}

PC(sug, eng, smart) ==
    [layout |-> "phonetic", psug |-> sug, fsug |-> FALSE, english |-> eng, ansi |-> FALSE, smart |-> smart,
     vowel |-> FALSE, chandra |-> FALSE, kar |-> FALSE, reph |-> FALSE, numpad |-> TRUE, karorder |-> FALSE, db |-> TRUE]
FC == [layout |-> "probhat", psug |-> FALSE, fsug |-> TRUE, english |-> TRUE, ansi |-> FALSE, smart |-> TRUE,
       vowel |-> TRUE, chandra |-> TRUE, kar |-> TRUE, reph |-> TRUE, numpad |-> TRUE, karorder |-> FALSE, db |-> TRUE]
Configs == {PC(TRUE, TRUE, FALSE), PC(TRUE, FALSE, TRUE), PC(FALSE, TRUE, TRUE), FC}
Phon(c) == c.layout = "phonetic"
Lists(c) == Phon(c) /\ c.psug

NoEntries == [w \in EditWords |-> 0]
None == [w \in Keys |-> 0]

VARIABLES cfg,
          file, stamp, fstate,      \* the user's auto-correct file: effective entries, modification stamp, "ok" | "corrupt" | "gone"
          loaded, loadedAt,         \* the copy the phonetic method object holds, and the stamp it was read at (0 = no file)
          memo,                     \* word -> entry version that was in force when its candidates were computed
          mem, sfile,               \* learned choices: in the method object / on disk (0 = none, else a token)
          pending,                  \* the file was edited and the context has not been told yet
          hist
vars == <<cfg, file, stamp, fstate, loaded, loadedAt, memo, mem, sfile, pending, hist>>

Exists == fstate # "gone"
EmptyMemo == [w \in {} |-> 0]

\* a method object is created (context creation, restart, layout change to the phonetic method): both files are read
LoadAll(c) == /\ loaded' = (IF Phon(c) THEN file ELSE NoEntries)
              /\ loadedAt' = (IF Phon(c) /\ Exists THEN stamp ELSE 0)
              /\ memo' = EmptyMemo
              /\ mem' = (IF Phon(c) THEN sfile ELSE None)

Init == /\ cfg \in Configs
        /\ file \in {NoEntries, [NoEntries EXCEPT !["as"] = 1]} /\ stamp = 1
        /\ fstate = (IF file = NoEntries THEN "gone" ELSE "ok")
        /\ loaded = (IF Phon(cfg) THEN file ELSE NoEntries) /\ loadedAt = (IF Phon(cfg) /\ fstate = "ok" THEN 1 ELSE 0)
        /\ memo = EmptyMemo /\ mem = None /\ sfile = None /\ pending = FALSE
        /\ hist = <<[op |-> "start", cfg |-> cfg, file |-> file, w |-> "", fstate |-> fstate]>>

Rec(op, c, w) == hist' = Append(hist, [op |-> op, cfg |-> c, file |-> file', w |-> w, fstate |-> fstate'])

\* a word typed key by key while idle; ended by finish, or by a learning commit
Word(w, learn) ==
    /\ (learn => Lists(cfg))
    /\ memo' = IF Lists(cfg)
               THEN [x \in DOMAIN memo \cup Touches(w) |-> IF x \in DOMAIN memo THEN memo[x] ELSE IF x \in EditWords THEN loaded[x] ELSE 0]
               ELSE memo
    /\ IF learn THEN mem' = [mem EXCEPT ![KeyOf(w)] = Len(hist) + 1] /\ sfile' = mem'       \* the whole map is written on every learning commit
                ELSE UNCHANGED <<mem, sfile>>
    /\ UNCHANGED <<cfg, file, stamp, fstate, loaded, loadedAt, pending>>
    /\ Rec(IF learn THEN "learn" ELSE "word", cfg, w)

Edit(w) ==
    /\ \E v \in 0..2 : v # file[w] /\ file' = [file EXCEPT ![w] = v]
    /\ stamp' = stamp + 1 /\ fstate' = "ok" /\ pending' = TRUE
    /\ UNCHANGED <<cfg, loaded, loadedAt, memo, mem, sfile>>
    /\ Rec("edit", cfg, w)
Break(k) ==
    /\ fstate # k
    /\ file' = NoEntries /\ stamp' = stamp + 1 /\ fstate' = k /\ pending' = TRUE
    /\ UNCHANGED <<cfg, loaded, loadedAt, memo, mem, sfile>>
    /\ Rec(k, cfg, "")

\* update_engine (the context is idle between the events of this model)
Update(c) ==
    /\ cfg' = c
    /\ IF c.layout # cfg.layout THEN LoadAll(c)
       ELSE IF ~Phon(c) THEN UNCHANGED <<loaded, loadedAt, memo, mem>>
       ELSE IF fstate = "gone"
            THEN IF GoneKeepsLoaded \/ loadedAt = 0 THEN UNCHANGED <<loaded, loadedAt, memo, mem>>
                 ELSE loaded' = NoEntries /\ loadedAt' = 0 /\ memo' = EmptyMemo /\ UNCHANGED mem
       ELSE IF stamp > loadedAt
            THEN loaded' = file /\ loadedAt' = stamp /\ memo' = (IF KeepMemo THEN memo ELSE EmptyMemo) /\ UNCHANGED mem
            ELSE UNCHANGED <<loaded, loadedAt, memo, mem>>
    /\ pending' = FALSE
    /\ UNCHANGED <<file, stamp, fstate, sfile>>
    /\ Rec("update", c, "")

Restart ==
    /\ LoadAll(cfg) /\ pending' = FALSE
    /\ UNCHANGED <<cfg, file, stamp, fstate, sfile>>
    /\ Rec("restart", cfg, "")

Edits == Cardinality({i \in 1..Len(hist) : hist[i].op \in {"edit", "corrupt", "gone"}})
Next == /\ Len(hist) <= Depth
        /\ \/ \E w \in Words, learn \in BOOLEAN : Word(w, learn)
           \/ (Edits < 2 /\ \E w \in EditWords : Edit(w))
           \/ (Edits < 2 /\ \E k \in {"corrupt", "gone"} : Break(k))
           \/ \E c \in Configs : Update(c)
           \/ Restart
Spec == Init /\ [][Next]_vars

-----------------------------------------------------------------------------
(* ----- NORMATIVE --------------------------------------------------------- *)
\* the entry that decides the word's auto-correct-derived candidates (the suffixed word builds on the entry of its base)
AcOf(w) == IF w = "asgulo" THEN "as" ELSE KeyOf(w)
\* the learned choices that decide the preselection (own key; for the suffixed word also the choice of its base)
SelOf(m, w) == <<m[KeyOf(w)], IF w = "asgulo" THEN m["as"] ELSE 0>>
Answer(w) == [ac  |-> IF AcOf(w) \in DOMAIN memo THEN memo[AcOf(w)] ELSE loaded[AcOf(w)], sel |-> SelOf(mem, w)]
FreshAnswer(w) == [ac |-> file[AcOf(w)], sel |-> SelOf(sfile, w)]
ShadowEquiv == (~pending /\ Lists(cfg)) => \A w \in Words : Answer(w) = FreshAnswer(w)
\* what a learning commit stored is what a later context finds (C09, no faults in this model)
StoreInStep == Phon(cfg) => mem = sfile

-----------------------------------------------------------------------------
(* ----- scenario for the generic executor --------------------------------- *)
Val(v) == IF v = 1 THEN "amra" ELSE "tumi"
Entry(f, w) == "\"" \o w \o "\":\"" \o Val(f[w]) \o "\""
Content(f) == "{" \o (IF f["as"] # 0 THEN Entry(f, "as") ELSE "")
                  \o (IF f["as"] # 0 /\ f["help"] # 0 THEN "," ELSE "")
                  \o (IF f["help"] # 0 THEN Entry(f, "help") ELSE "") \o "}"
Chars(w) == CASE w = "as" -> <<"a", "s">> [] w = "help" -> <<"h", "e", "l", "p">> [] w = Quoted -> <<"\"", "a", "s", "'">>
              [] OTHER -> <<"a", "s", "g", "u", "l", "o">>
Nop == [op |-> "nop"]
WriteStep(i) == IF hist[i].fstate = "gone" THEN [op |-> "remove", home |-> "h0", file |-> "ac"]
                ELSE [op |-> "write", home |-> "h0", file |-> "ac", mtime |-> i * 10,
                      content |-> IF hist[i].fstate = "corrupt" THEN "{\"as\":" ELSE Content(hist[i].file)]
\* each event becomes two steps (so that step indices are computable): <<first, second>>
Two(i) ==
    CASE hist[i].op = "start"   -> <<WriteStep(i), [op |-> "new", cfg |-> hist[i].cfg, home |-> "h0"]>>
      [] hist[i].op = "word"    -> <<[op |-> "type", text |-> Chars(hist[i].w)], [op |-> "finish"]>>
      [] hist[i].op = "learn"   -> <<[op |-> "type", text |-> Chars(hist[i].w)], [op |-> "commit", idx |-> "other"]>>
      [] hist[i].op \in {"edit", "corrupt", "gone"} -> <<WriteStep(i), Nop>>
      [] hist[i].op = "update"  -> <<[op |-> "update", cfg |-> hist[i].cfg], Nop>>
      [] OTHER                  -> <<[op |-> "new", cfg |-> hist[i].cfg, home |-> "h0"], Nop>>
ProbeList == <<"as", "help", Quoted, "asgulo">>
Probe(k) == IF k % 2 = 1 THEN [op |-> "type", text |-> Chars(ProbeList[(k + 1) \div 2])] ELSE [op |-> "finish"]
N == Len(hist)
RunA == [k \in 1..(2 * N + 8) |-> IF k <= 2 * N THEN Two((k + 1) \div 2)[IF k % 2 = 1 THEN 1 ELSE 2] ELSE Probe(k - 2 * N)]
RunB == [k \in 1..9 |-> IF k = 1 THEN [op |-> "new", cfg |-> cfg, home |-> "h0"] ELSE Probe(k - 1)]
\* observation indices are 0-based step positions
Checks == [j \in 1..4 |-> [k |-> "eq", a |-> <<"A", 2 * N + 2 * j - 2>>, b |-> <<"B", 2 * j - 1>>, f |-> "render"]]
Scenario == [mc |-> "Script", site |-> "system", variants |-> 1, reuse |-> FALSE,
             vars |-> [x \in {} |-> <<>>], runs |-> [A |-> RunA, B |-> RunB], checks |-> Checks]
Emit == (Emitting /\ Len(hist) = Depth + 1 /\ ~pending) => PrintT(<<"REPLAY", ToJson(Scenario)>>)
=============================================================================
