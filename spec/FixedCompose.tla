---------------------------- MODULE FixedCompose ----------------------------
(***************************************************************************)
(* The fixed-layout composition machine: how one key value rewrites the    *)
(* composed text.                                                          *)
(*                                                                         *)
(* Two layers (DESIGN 1.1):                                                *)
(*   Prop*  - NORMATIVE relations written from the statements of C12, C13, *)
(*            C14.  Only these decide conformance.                         *)
(*   Impl*  - DESCRIPTIVE transcript of src/fixed/method.rs                *)
(*            (process_key_value, is_reph_moveable, insert_old_style_reph, *)
(*            backspace_event), one operator per branch.  TLC uses it to   *)
(*            explore the reachable texts and to check Impl => Prop.       *)
(*                                                                         *)
(* Options o : [vowel, chandra, kar, reph, karorder : BOOLEAN]             *)
(* State   s : [buf : Seq(Char), pend : {"none","I","E","OI"},             *)
(*              crash : BOOLEAN]                                           *)
(***************************************************************************)
EXTENDS Naturals, Sequences, FiniteSets, Chars

St(b, p)  == [buf |-> b, pend |-> p, crash |-> FALSE]
Crash(s)  == [s EXCEPT !.crash = TRUE]
Idle      == St(<<>>, "none")

PendOf(k)    == CASE k = "ি" -> "I" [] k = "ে" -> "E" [] k = "ৈ" -> "OI" [] OTHER -> "none"
PendKar(p)   == CASE p = "I" -> "ি" [] p = "E" -> "ে" [] p = "OI" -> "ৈ"
PendVowel(p) == CASE p = "I" -> "ই" [] p = "E" -> "এ" [] p = "OI" -> "ঐ"

-----------------------------------------------------------------------------
(***************************************************************************)
(* NORMATIVE: C12 (old vowel-sign order off).  The priority chain of the   *)
(* statement, parameterised by the reading of the character classes:       *)
(*   cls = [vow : set after which a sign becomes a vowel (vowels + signs), *)
(*          pun : punctuation, con : consonants, kars : vowel signs,       *)
(*          k2v : sign -> independent vowel]                               *)
(***************************************************************************)
ChartClasses == [vow  |-> IndepVowels \cup Kars, pun |-> Punct, con |-> Consonants,
                 kars |-> Kars, k2v |-> KarToVowel]

\* "zo-fola after a bare ra gets a joiner in front"
PropZofola(buf) ==
    IF Last(buf) = B_R /\ Last2(buf) # HASANTA THEN buf \o <<ZWJ>> \o ZOFOLA ELSE buf \o ZOFOLA

\* a single vowel sign k
PropKar(buf, k, o, cls) ==
    LET l == Last(buf) IN
    IF o.vowel /\ (buf = <<>> \/ l \in cls.vow \/ l \in cls.pun) THEN Append(buf, cls.k2v[k])
    ELSE IF o.chandra /\ l = CHANDRA THEN Front(buf) \o <<k, CHANDRA>>
    ELSE IF l = HASANTA THEN Append(Front(buf), cls.k2v[k])
    ELSE IF o.kar /\ l \in cls.con /\ k \in LigKars THEN buf \o <<ZWNJ, k>>
    ELSE Append(buf, k)

\* Old-style reph, C13.  Syllable grammar on texts (sequences of characters).
IsConjunctAt(p, i, j) ==   \* p[i..j] is consonant (hasanta consonant)*
    /\ i <= j /\ (j - i) % 2 = 0
    /\ \A x \in i..j : IF (x - i) % 2 = 0 THEN p[x] \in Consonants ELSE p[x] = HASANTA

\* Is p[i..j] one syllable?  conjunct [vowel | sign] [chandrabindu]  |  vowel [chandrabindu]  |  other char
IsSyllable(p, i, j) ==
    \/ /\ i = j
       /\ p[i] \notin Consonants /\ p[i] \notin IndepVowels /\ p[i] \notin Kars
       /\ p[i] # HASANTA /\ p[i] # CHANDRA
       /\ p[i] \notin EdgeChars /\ p[i] # ZWJ /\ p[i] # ZWNJ /\ p[i] # AULEN
    \/ /\ p[i] \in IndepVowels /\ (j = i \/ (j = i + 1 /\ p[j] = CHANDRA))
    \/ \E e \in i..j :                               \* conjunct = p[i..e]
          /\ IsConjunctAt(p, i, e)
          /\ LET rest == SubSeq(p, e + 1, j) IN
             \/ rest = <<>>
             \/ Len(rest) = 1 /\ (rest[1] \in Kars \/ rest[1] \in IndepVowels \/ rest[1] = CHANDRA)
             \/ Len(rest) = 2 /\ (rest[1] \in Kars \/ rest[1] \in IndepVowels) /\ rest[2] = CHANDRA

RECURSIVE WellFormedFrom(_, _)
WellFormedFrom(p, i) ==   \* p[i..] is a sequence of syllables; a conjunct syllable is maximal
    \/ i > Len(p)
    \/ \E j \in i..Len(p) :
          /\ IsSyllable(p, i, j)
          /\ WellFormedFrom(p, j + 1)
WellFormed(p) == WellFormedFrom(p, 1)

\* Start (0-based insertion index) of the final conjunct when p ends in conjunct [vowel(sign)] [chandra];
\* Len(p) (append) otherwise.
FinalConjunctStart(p) ==
    LET n  == Len(p)
        e1 == IF n >= 1 /\ p[n] = CHANDRA THEN n - 1 ELSE n            \* strip optional chandrabindu
        e2 == IF e1 >= 1 /\ (p[e1] \in Kars \/ p[e1] \in IndepVowels) THEN e1 - 1 ELSE e1
        starts == {i \in 1..e2 : IsConjunctAt(p, i, e2)}
    IN IF e2 >= 1 /\ starts # {} THEN (CHOOSE i \in starts : \A i2 \in starts : i <= i2) - 1 ELSE n

\* The set of texts C13 allows after the reph key on text p (option on).
PropRephSet(p) ==
    IF p = <<>> THEN {REPH}
    ELSE IF WellFormed(p) THEN {Insert(p, FinalConjunctStart(p), REPH)}
    ELSE {Insert(p, k, REPH) : k \in 0..Len(p)}               \* conservation clause only

\* Is the situation one where every reading of the statement agrees (no edge characters involved)?
NormativeKey(buf, v) ==
    /\ Last(buf) \notin EdgeChars
    /\ \A i \in 1..Len(v) : v[i] \notin EdgeChars

(***************************************************************************)
(* PropKeySet(buf, v, o): the set of composed texts C12/C13 allow after a  *)
(* key with value v on text buf, old vowel order off.  A singleton except  *)
(* where the statement leaves the result open:                             *)
(*  - reph key on an ill-formed text (any insertion point),                *)
(*  - a multi-code-point value that begins with hasanta typed right after  *)
(*    a hasanta ("a second hasanta adds a non-joiner" vs "plain append").  *)
(***************************************************************************)
PropKeySet(buf, v, o) ==
    IF v = ZOFOLA THEN {PropZofola(buf)}
    ELSE IF v = REPH /\ o.reph THEN PropRephSet(buf)
    ELSE IF Len(v) = 1 /\ v[1] \in Kars THEN {PropKar(buf, v[1], o, ChartClasses)}
    ELSE IF v[1] = HASANTA /\ Last(buf) = HASANTA THEN
            IF Len(v) = 1 THEN {Append(buf, ZWNJ)}
            ELSE {Append(buf, ZWNJ), buf \o v, Append(buf, ZWNJ) \o Tail(v)}
    ELSE IF v = <<AULEN>> /\ Last(buf) = HASANTA THEN {Append(Front(buf), "ঔ")}
    ELSE {buf \o v}

PropBackspace(buf) == Front(buf)     \* removes exactly the last code point

-----------------------------------------------------------------------------
(***************************************************************************)
(* DESCRIPTIVE transcript of the implementation's class tables.            *)
(***************************************************************************)
ImplVowels == IndepVowels \cup {"ঌ", "ৡ"} \cup Kars            \* Utility::is_vowel
ImplKars   == Kars \cup {"ৄ"}                                   \* Utility::is_kar
ImplCons   == Consonants                                        \* Utility::is_pure_consonant
ImplMarks  == Punct                                             \* MARKS in fixed/method.rs

ImplK2V(k) == IF k \in Kars THEN <<KarToVowel[k]>> ELSE <<>>    \* the ten-way match; U+09C4 falls to `_ => ()`

(***************************************************************************)
(* insert_old_style_reph: is_reph_moveable, then the right-to-left scan    *)
(* with its four flags.  A character that is none of consonant, hasanta,   *)
(* vowel, chandrabindu is skipped without being counted (so on texts with  *)
(* joiners or punctuation inside the last cluster the insertion point is   *)
(* shifted; such texts are outside the placement clause of C13).           *)
(***************************************************************************)
ImplRephMoveable(buf) ==
    LET n   == Len(buf)
        r0  == buf[n]
        rm  == IF r0 = CHANDRA THEN (IF n >= 2 THEN buf[n - 1] ELSE NUL) ELSE r0
        brm == IF r0 = CHANDRA THEN (IF n >= 3 THEN buf[n - 2] ELSE NUL)
                               ELSE (IF n >= 2 THEN buf[n - 1] ELSE NUL)
    IN rm \in ImplCons \/ (rm \in ImplVowels /\ brm \in ImplCons)

RECURSIVE ImplRephScan(_, _, _, _, _, _, _)
ImplRephScan(buf, idx, cons, vow, has, chan, step) ==
    IF idx >= Len(buf) THEN step
    ELSE LET c == buf[Len(buf) - idx] IN
         IF c \in ImplCons THEN
              IF cons /\ ~has THEN step
              ELSE ImplRephScan(buf, idx + 1, TRUE, vow, FALSE, chan, step + 1)
         ELSE IF c = HASANTA THEN ImplRephScan(buf, idx + 1, cons, vow, TRUE, chan, step + 1)
         ELSE IF c \in ImplVowels THEN
              IF vow THEN step
              ELSE IF idx = 0 \/ (chan /\ idx = 1) THEN ImplRephScan(buf, idx + 1, cons, TRUE, has, chan, step + 1)
              ELSE step
         ELSE IF c = CHANDRA THEN
              IF idx = 0 THEN ImplRephScan(buf, idx + 1, cons, vow, has, TRUE, step + 1)
              ELSE step
         ELSE ImplRephScan(buf, idx + 1, cons, vow, has, chan, step)   \* foreign char: skipped, not counted

ImplReph(s) ==
    IF s.buf # <<>> /\ ImplRephMoveable(s.buf)                 \* empty: "not moveable" (fix 1 of known_findings)
         THEN LET step == ImplRephScan(s.buf, 0, FALSE, FALSE, FALSE, FALSE, 0)
              IN [s EXCEPT !.buf = Insert(s.buf, Len(s.buf) - step, REPH)]
         ELSE [s EXCEPT !.buf = s.buf \o REPH]

(***************************************************************************)
(* process_key_value.  `rmc` is read once at entry (it goes stale after    *)
(* the pending-sign branch pushes - transcribed as such).                  *)
(***************************************************************************)
\* the tail of the kar branch: automatic vowel / chandra / hasanta / traditional joining / append
ImplKarTail(s, ch, rmc, o) ==
    IF o.vowel /\ (s.buf = <<>> \/ rmc \in ImplVowels \/ rmc \in ImplMarks)
         THEN [s EXCEPT !.buf = s.buf \o ImplK2V(ch)]
    ELSE IF o.chandra /\ rmc = CHANDRA THEN [s EXCEPT !.buf = Front(s.buf) \o <<ch, CHANDRA>>]
    ELSE IF rmc = HASANTA THEN
         IF ch \in Kars THEN [s EXCEPT !.buf = Front(s.buf) \o ImplK2V(ch)] ELSE s
    ELSE IF o.kar /\ rmc \in ImplCons THEN
         [s EXCEPT !.buf = s.buf \o (IF ch \in LigKars THEN <<ZWNJ, ch>> ELSE <<ch>>)]
    ELSE [s EXCEPT !.buf = Append(s.buf, ch)]

RECURSIVE ImplKey(_, _, _)
ImplKey(s, v, o) ==
    LET rmc == Last(s.buf)
        ch  == v[1]
    IN
    \* Zo-fola insertion
    IF v = ZOFOLA THEN
        \* a left-standing sign placed by old-order typing is lifted, the bare-ra rule looks underneath
        LET lift == o.karorder /\ rmc \in LeftKars
            b0   == IF lift THEN Front(s.buf) ELSE s.buf
            b1   == IF Last(b0) = B_R /\ Last2(b0) # HASANTA THEN Append(b0, ZWJ) ELSE b0
        IN [s EXCEPT !.buf = b1 \o v \o (IF lift THEN <<rmc>> ELSE <<>>)]
    \* Old style reph insertion
    ELSE IF v = REPH /\ o.reph THEN ImplReph(s)
    \* Kar insertion
    ELSE IF ch \in ImplKars THEN
        IF o.karorder /\ rmc # HASANTA /\ ch \in LeftKars
            THEN [s EXCEPT !.pend = PendOf(ch)]
        ELSE IF o.karorder /\ rmc = "ে" /\ ch \in {"া", "ৌ"}
            THEN [s EXCEPT !.buf = Append(Front(s.buf), IF ch = "া" THEN "ো" ELSE "ৌ")]
        ELSE IF o.karorder /\ s.pend # "none" THEN
            IF rmc = HASANTA
            THEN ImplKarTail([s EXCEPT !.buf = Front(s.buf) \o <<PendKar(s.pend), HASANTA>>, !.pend = "none"],
                             ch, rmc, o)
            ELSE LET b1 == IF o.vowel /\ (s.buf = <<>> \/ rmc \in ImplVowels \/ rmc \in ImplMarks)
                           THEN Append(s.buf, PendVowel(s.pend)) ELSE s.buf
                 IN ImplKey([s EXCEPT !.buf = b1, !.pend = "none"], v, o)
        ELSE ImplKarTail(s, ch, rmc, o)
    \* Hasanta after hasanta
    ELSE IF ch = HASANTA /\ rmc = HASANTA THEN [s EXCEPT !.buf = Append(s.buf, ZWNJ)]
    \* AU length mark after hasanta
    ELSE IF ch = AULEN /\ rmc = HASANTA THEN [s EXCEPT !.buf = Append(Front(s.buf), "ঔ")]
    \* Old style kar ordering: hasanta (or a value starting with it) after a left-standing sign
    ELSE IF o.karorder /\ ch = HASANTA /\ rmc \in LeftKars THEN
        IF Len(v) = 1 THEN [s EXCEPT !.buf = Append(Front(s.buf), ch), !.pend = PendOf(rmc)]
        ELSE [s EXCEPT !.buf = Front(s.buf) \o v \o <<rmc>>]
    ELSE IF o.karorder /\ rmc = "ে" /\ ch = AULEN THEN [s EXCEPT !.buf = Append(Front(s.buf), "ৌ")]
    \* a pending left-standing sign lands after the value, unless the value ends in hasanta
    ELSE IF o.karorder /\ s.pend # "none" THEN
        IF Last(v) = HASANTA THEN [s EXCEPT !.buf = s.buf \o v]
        ELSE [s EXCEPT !.buf = s.buf \o v \o <<PendKar(s.pend)>>, !.pend = "none"]
    ELSE [s EXCEPT !.buf = s.buf \o v]

\* backspace_event (no ctrl), composition part only.
ImplBackspace(s) ==
    IF s.pend # "none" THEN [s EXCEPT !.pend = "none"]
    ELSE IF s.buf # <<>> THEN [s EXCEPT !.buf = Front(s.buf)]
    ELSE s

ImplOngoing(s) == s.buf # <<>> \/ s.pend # "none"

-----------------------------------------------------------------------------
(***************************************************************************)
(* NORMATIVE: C14.  Words are sequences of syllables; a syllable is a      *)
(* record [onset : Seq of key values, kar : sign or NUL, chandra : BOOLEAN]*)
(* or a "plain" syllable [plain : key value] (independent vowel,           *)
(* punctuation).  An onset is consonant key values separated by hasanta    *)
(* keys and/or followed by ro-fola / zo-fola key values.                   *)
(***************************************************************************)
UnicodeKeysSyl(sy) ==
    IF "plain" \in DOMAIN sy THEN <<sy.plain>>
    ELSE sy.onset \o (IF sy.kar = NUL THEN <<>> ELSE <<<<sy.kar>>>>)
                  \o (IF sy.chandra THEN <<<<CHANDRA>>>> ELSE <<>>)

\* typewriter order; `alt` chooses the second half of AU: the sign itself or the AU length mark
TypewriterKeysSyl(sy, alt) ==
    IF "plain" \in DOMAIN sy THEN <<sy.plain>>
    ELSE LET ch == IF sy.chandra THEN <<<<CHANDRA>>>> ELSE <<>> IN
         IF sy.kar \in LeftKars THEN <<<<sy.kar>>>> \o sy.onset \o ch
         ELSE IF sy.kar = "ো" THEN <<<<"ে">>>> \o sy.onset \o <<<<"া">>>> \o ch
         ELSE IF sy.kar = "ৌ" THEN <<<<"ে">>>> \o sy.onset \o <<IF alt THEN <<AULEN>> ELSE <<"ৌ">>>> \o ch
         ELSE UnicodeKeysSyl(sy)

RECURSIVE FlattenKeys(_)
FlattenKeys(ss) == IF ss = <<>> THEN <<>> ELSE Head(ss) \o FlattenKeys(Tail(ss))

RECURSIVE RunKeys(_, _, _)
RunKeys(s, keys, o) == IF keys = <<>> THEN s ELSE RunKeys(ImplKey(s, Head(keys), o), Tail(keys), o)
=============================================================================
