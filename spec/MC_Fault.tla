------------------------------ MODULE MC_Fault ------------------------------
(***************************************************************************)
(* C10: damaged or missing user files never stop the keyboard.             *)
(*                                                                         *)
(* Environment model: each of the two per-user files is in one of the      *)
(* states  absent | valid | empty | torn | wrongshape | emptyentries, the  *)
(* user-data directory is  ok | missing | blocked (not writable).  A save  *)
(* is two steps - truncate, then write - so a crash point sits between     *)
(* them (the file is empty) and inside the write (torn).                   *)
(*                                                                         *)
(* Context model (what C10 demands): loading treats everything that is not *)
(* a JSON object of strings as absent; a failed save keeps the learned     *)
(* entry in memory and loses only that entry on disk.  Invariants:         *)
(*   Robust          no event crashes because of a file / directory state  *)
(*   LoadedIsOnDisk  a context holds only entries a loadable file holds    *)
(*   LosesAtMostNew  a failed save loses at most the entries learned since *)
(*   ReloadAsNew     after re-loading the configuration the context holds   *)
(*                   of the auto-correct list what a new context would hold *)
(* Every scenario (environment x event sequence) is emitted; the harness   *)
(* concretises torn as EVERY byte prefix of a store the engine itself      *)
(* wrote, wrongshape / emptyentries as corpora, and compares a context     *)
(* started over unreadable content with one started with the file absent.  *)
(***************************************************************************)
EXTENDS Naturals, Sequences, FiniteSets, TLC, Json

CONSTANTS MaxSteps,
          Focus        \* "all": every scenario | "damage": only scenarios in which the environment replaces the auto-correct file
                       \* | "repair": only scenarios in which the directory appears under the live context and a learning commit follows

FileStates == {"absent", "valid", "empty", "torn", "wrongshape", "emptyentries"}
DirStates  == {"ok", "missing", "blocked"}
Readable(f) == f \in {"valid", "emptyentries"}          \* parses as a JSON object of strings

VARIABLES sel, ac, dir,      \* environment
          alive, mem, acmem, \* context: exists?, learned entries in memory, user auto-correct loaded?
          disk,              \* learned entries the store file holds (meaningful while sel = "valid")
          crashed, hist
vars == <<sel, ac, dir, alive, mem, acmem, disk, crashed, hist>>

Init == /\ sel \in FileStates /\ ac \in FileStates /\ dir \in DirStates
        /\ (dir # "ok" => sel = "absent" /\ ac = "absent")       \* no directory, no files
        /\ alive = FALSE /\ mem = 0 /\ acmem = FALSE /\ disk = (IF sel = "valid" THEN 1 ELSE 0)
        /\ crashed = FALSE
        /\ hist = <<[op |-> "env", sel |-> sel, ac |-> ac, dir |-> dir]>>

Log(op) == hist' = Append(hist, [op |-> op, sel |-> sel', ac |-> ac', dir |-> dir'])

New == /\ ~alive /\ alive' = TRUE
       /\ mem' = (IF sel = "valid" THEN disk ELSE 0)              \* unreadable content = absent
       /\ acmem' = Readable(ac)
       /\ UNCHANGED <<sel, ac, dir, disk, crashed>> /\ Log("new")

Type == alive /\ UNCHANGED <<sel, ac, dir, alive, mem, acmem, disk, crashed>> /\ Log("type")

CommitLearn ==
    /\ alive /\ mem < 3
    /\ mem' = mem + 1
    /\ IF dir = "ok" THEN sel' = "valid" /\ disk' = mem'          \* the whole map is rewritten
       ELSE sel' = sel /\ disk' = disk                            \* failed save: memory keeps the choice
    /\ UNCHANGED <<ac, dir, alive, acmem, crashed>> /\ Log("commit")

\* the process dies in the middle of a save
CrashInSave ==
    /\ alive /\ dir = "ok"
    /\ \E s \in {"empty", "torn"} : sel' = s
    /\ alive' = FALSE /\ mem' = 0 /\ acmem' = FALSE /\ disk' = 0
    /\ UNCHANGED <<ac, dir, crashed>> /\ Log("crash-in-save")

Restart == alive /\ alive' = FALSE /\ mem' = 0 /\ acmem' = FALSE
           /\ UNCHANGED <<sel, ac, dir, disk, crashed>> /\ Log("restart")

Update == alive /\ acmem' = Readable(ac)
          /\ UNCHANGED <<sel, ac, dir, alive, mem, disk, crashed>> /\ Log("update")

\* the environment acts while a context is alive: the user's auto-correct file is replaced by a file in another state
\* (damaged by an interrupted save of its editor, deleted, restored) - at most once per scenario; the next Update
\* must treat it like a context created now would
Damaged == \E i \in 1..Len(hist) : hist[i].op = "damage"
Damage == /\ Focus = "damage" /\ alive /\ dir = "ok" /\ ~Damaged
          /\ \E f \in FileStates \ {ac} : ac' = f
          /\ UNCHANGED <<sel, dir, alive, mem, acmem, disk, crashed>> /\ Log("damage")

\* ... and the user-data directory that was missing or not writable appears / becomes writable while the context is alive
\* (the front-end's installer creates it, a mount comes back) - at most once per scenario.  From then on saves complete
\* again: "a failed save loses at most that one learned choice", not the ones learned afterwards.
Repaired == \E i \in 1..Len(hist) : hist[i].op = "repair"
Repair == /\ Focus \in {"all", "repair"} /\ alive /\ dir # "ok" /\ ~Repaired
          /\ dir' = "ok"
          /\ UNCHANGED <<sel, ac, alive, mem, acmem, disk, crashed>> /\ Log("repair")

Next == Len(hist) <= MaxSteps /\ (New \/ Type \/ CommitLearn \/ CrashInSave \/ Restart \/ Update \/ Damage \/ Repair)
Spec == Init /\ [][Next]_vars

Robust         == ~crashed
LoadedIsOnDisk == (alive /\ \A i \in 1..Len(hist) : hist[i].op # "commit") => mem = (IF sel = "valid" THEN disk ELSE 0)
LosesAtMostNew == alive => (IF sel = "valid" THEN disk <= mem ELSE TRUE)
\* re-loading: what the context holds of the user's auto-correct list is what a context created now would hold
ReloadAsNew == (alive /\ hist[Len(hist)].op = "update") => acmem = Readable(ac)
\* a completed save leaves a loadable file
SaveLeavesValid == (hist[Len(hist)].op = "commit" /\ dir = "ok") => (sel = "valid" /\ disk = mem)

Emit == (Len(hist) = MaxSteps + 1 /\ (Focus = "damage" => Damaged /\ hist[Len(hist)].op \in {"update", "type"})
                                    /\ (Focus = "repair" => Repaired /\ hist[Len(hist)].op = "commit")) =>
            PrintT(<<"REPLAY", ToJson([mc |-> "MC_Fault", focus |-> Focus, steps |-> hist])>>)
=============================================================================
