------------------------------ MODULE MC_Quote ------------------------------
(***************************************************************************)
(* C17: smart quotes curl only the quotes that wrap a non-empty word.      *)
(* Every class string up to MaxLen over {letter, quote, other punctuation, *)
(* colon, back-tick} is typed with the option on and off (same history,    *)
(* all other options equal); the specification says how the two lists must *)
(* relate:                                                                 *)
(*   word empty            -> identical lists                              *)
(*   otherwise             -> same length/order/preselection, and each     *)
(*     candidate of the ON list is the OFF candidate with the straight     *)
(*     quotes of its leading (trailing) punctuation replaced by opening    *)
(*     (closing) curly quotes -- except the raw typed text, untouched.     *)
(* The split that defines "leading/trailing punctuation" is Split.tla's.   *)
(***************************************************************************)
EXTENDS Split, TLC, Json, IOUtils

CONSTANTS MaxLen, Method,     \* "phonetic" | "fixed"
          MaxLearn            \* longest class string run with a learned choice
VARIABLE text
\* (fixed: k* a consonant, n* punctuation of the layout, s* an ASCII symbol the layout emits as it is and that is no punctuation
\*  for the splitter - composed text and raw key text coincide)
Tokens == IF Method = "phonetic" THEN {"L*", "Q*", "N*", "C*", "B*"} ELSE {"k*", "Q*", "n*", "C*", "s*"}
\* ... and, as literal texts, every emoticon of the bundled table that holds a quote character (work/gen/emoticon_quotes.json, dumped
\* from the emojicon tables by the harness): punctuation around a word part that the engine ALSO knows as a whole (phonetic method)
EmoticonTexts == IF Method = "phonetic" THEN LET L == JsonDeserialize(IOEnv.VERIF_GEN \o "/emoticon_quotes.json") IN {L[i] : i \in DOMAIN L} ELSE {}
IsEmoticonText == text \in EmoticonTexts
Init == text = <<>>
Next == \/ (~IsEmoticonText /\ Len(text) < MaxLen /\ \E t \in Tokens : text' = Append(text, t))
        \/ (text = <<>> /\ \E e \in EmoticonTexts : text' = e)
Spec == Init /\ [][Next]_text

\* the fixed method splits the composed text with ':' as punctuation, the phonetic one without
IsMetaF(c) == IsMeta(c) \/ c = "n*"
S == IF Method = "phonetic" THEN ImplSplit(text, FALSE)
     ELSE ImplSplit([i \in 1..Len(text) |-> IF text[i] = "n*" THEN "N*" ELSE text[i]], TRUE)
Back(s) == IF Method = "phonetic" THEN s ELSE [i \in 1..Len(s) |-> IF s[i] = "N*" THEN "n*" ELSE s[i]]

HasQuote(s) == \E i \in 1..Len(s) : IsQuote(s[i])
Cfg(smart, eng, ansi) ==
    IF Method = "phonetic"
    THEN [layout |-> "phonetic", psug |-> TRUE, fsug |-> FALSE, english |-> eng, ansi |-> ansi, smart |-> smart,
          vowel |-> FALSE, chandra |-> FALSE, kar |-> FALSE, reph |-> FALSE, numpad |-> TRUE, karorder |-> FALSE, db |-> TRUE]
    ELSE [layout |-> "probhat", psug |-> FALSE, fsug |-> TRUE, english |-> eng, ansi |-> ansi, smart |-> smart,
          vowel |-> TRUE, chandra |-> TRUE, kar |-> TRUE, reph |-> TRUE, numpad |-> TRUE, karorder |-> FALSE, db |-> TRUE]

Typed == <<"$P", "$W", "$Q">>
Check(on, off) == [k |-> "curl", on |-> <<on, 1>>, off |-> <<off, 1>>, parts |-> Typed,
                   wordempty |-> (S.word = <<>>), translit |-> (Method = "phonetic")]
Scenario ==
    [mc |-> "Script", site |-> "curl", variants |-> 2, reuse |-> TRUE,
     vars |-> [P |-> Back(S.pre), W |-> Back(S.word), Q |-> Back(S.trail)],
     runs |-> [A |-> <<[op |-> "new", cfg |-> Cfg(TRUE, TRUE, FALSE)],  [op |-> "type", text |-> Typed]>>,
               B |-> <<[op |-> "new", cfg |-> Cfg(FALSE, TRUE, FALSE)], [op |-> "type", text |-> Typed]>>,
               C |-> <<[op |-> "new", cfg |-> Cfg(TRUE, FALSE, TRUE)],  [op |-> "type", text |-> Typed]>>,
               D |-> <<[op |-> "new", cfg |-> Cfg(FALSE, FALSE, TRUE)], [op |-> "type", text |-> Typed]>>],
     checks |-> <<Check("A", "B"), Check("C", "D")>>]

\* "same length, order and PRESELECTION": the preselected index is computed from the learned choices, so the pair is also run
\* with a choice learned for the very text - each side in its own user-data directory: type, commit another candidate than the
\* preselected one, type the same text again; the two second lists must relate like the first ones (phonetic method: the
\* fixed one learns nothing).  Each scenario makes its own contexts (they write the user files).
CfgH(smart, eng) == Cfg(smart, eng, FALSE)
CheckAt(on, off, i) == [k |-> "curl", on |-> <<on, i>>, off |-> <<off, i>>, parts |-> Typed,
                        wordempty |-> (S.word = <<>>), translit |-> (Method = "phonetic")]
\* (... and then the text WITHOUT its trailing punctuation: a closing punctuation key echoes the caller's selection byte - F05 -,
\*  which would hide a preselection that differs between the two sides)
TypedPW == <<"$P", "$W">>
CheckPW(on, off, i) == [k |-> "curl", on |-> <<on, i>>, off |-> <<off, i>>, parts |-> <<"$P", "$W", "">>,
                        wordempty |-> (S.word = <<>>), translit |-> (Method = "phonetic")]
Learned(eng, nvar) ==
    [mc |-> "Script", site |-> "curl", variants |-> nvar, reuse |-> FALSE,
     vars |-> [P |-> Back(S.pre), W |-> Back(S.word), Q |-> Back(S.trail)],
     runs |-> [A |-> <<[op |-> "new", cfg |-> CfgH(TRUE, eng), home |-> "hA"],  [op |-> "type", text |-> Typed],
                       [op |-> "commit", idx |-> "other"], [op |-> "type", text |-> Typed], [op |-> "finish"], [op |-> "type", text |-> TypedPW]>>,
               B |-> <<[op |-> "new", cfg |-> CfgH(FALSE, eng), home |-> "hB"], [op |-> "type", text |-> Typed],
                       [op |-> "commit", idx |-> "other"], [op |-> "type", text |-> Typed], [op |-> "finish"], [op |-> "type", text |-> TypedPW]>>],
     checks |-> <<CheckAt("A", "B", 1), CheckAt("A", "B", 3), CheckPW("A", "B", 5)>>]
\* (emoticons: with the English option on and off - the literal text of an emoticon is offered either way - and with each of
\*  the other candidates committed)
EmitLearned == /\ (Method = "phonetic" /\ HasQuote(text) /\ S.word # <<>> /\ Len(text) <= MaxLearn /\ ~IsEmoticonText)
                     => PrintT(<<"REPLAY", ToJson(Learned(TRUE, 2))>>)
               /\ (IsEmoticonText /\ S.word # <<>>)
                     => (PrintT(<<"REPLAY", ToJson(Learned(TRUE, 3))>>) /\ PrintT(<<"REPLAY", ToJson(Learned(FALSE, 3))>>))

\* only strings that contain a quote are interesting for the pair (the others are C05/C06 material)
Emit == /\ (text # <<>> /\ HasQuote(text)) => PrintT(<<"REPLAY", ToJson(Scenario)>>)
        /\ EmitLearned
=============================================================================
