------------------------------- MODULE Ranking -------------------------------
(***************************************************************************)
(* The ranking machinery both candidate assemblies share (src/suggestion.rs): *)
(* the four Rank variants, the hand-written comparator (impl Ord for Rank),   *)
(* the stable sort (Rust's sort is an insertion sort for the <= 20 items      *)
(* these lists have) and the duplicate check of utility::push_checked.        *)
(* Texts are abstract tokens; distances from {0, 10, 20}; emoji ranks 1..n.   *)
(***************************************************************************)
EXTENDS Integers, Sequences, FiniteSets

Texts == {"t1", "t2", "t3", "t4"}
EmojiText == <<"e1", "e2", "e3", "e4", "e5", "e6", "e7", "e8", "e9", "e10", "e11", "e12">>
Dists == {0, 10, 20}

\* ----- Rank and its comparator (src/suggestion.rs) -----------------------------
First(t)     == [v |-> "First", t |-> t, n |-> 0, src |-> "ac"]
Emoji(t, r)  == [v |-> "Emoji", t |-> t, n |-> r, src |-> "emoji"]
Other(t, d, s) == [v |-> "Other", t |-> t, n |-> d, src |-> s]
Last(t, r, s)  == [v |-> "Last", t |-> t, n |-> r, src |-> s]

\* -1 less, 0 equal, 1 greater
Num(a, b) == IF a < b THEN -1 ELSE IF a = b THEN 0 ELSE 1
ImplCmp(a, b) ==
    CASE a.v = "First" /\ b.v = "First" -> 0
      [] a.v = "First" -> -1
      [] b.v = "First" -> 1
      [] a.v = "Emoji" /\ b.v = "Emoji" -> 0
      [] a.v = "Emoji" /\ b.v = "Other" -> Num(a.n, b.n)
      [] a.v = "Other" /\ b.v = "Emoji" -> Num(a.n, b.n)
      [] a.v = "Emoji" /\ b.v = "Last"  -> -1
      [] a.v = "Last"  /\ b.v = "Emoji" -> 1
      [] a.v = "Other" /\ b.v = "Other" -> Num(a.n, b.n)
      [] a.v = "Other" /\ b.v = "Last"  -> -1
      [] a.v = "Last"  /\ b.v = "Other" -> 1
      [] OTHER -> Num(a.n, b.n)                       \* Last vs Last

\* stable insertion sort with that comparator
RECURSIVE InsertSorted(_, _)
InsertSorted(sorted, x) ==          \* insert x after the last element that is not greater than x
    IF sorted = <<>> THEN <<x>>
    ELSE IF ImplCmp(sorted[Len(sorted)], x) = 1 THEN Append(InsertSorted(SubSeq(sorted, 1, Len(sorted) - 1), x), sorted[Len(sorted)])
    ELSE Append(sorted, x)
RECURSIVE SortRanks(_)
SortRanks(s) == IF s = <<>> THEN <<>> ELSE InsertSorted(SortRanks(SubSeq(s, 1, Len(s) - 1)), s[Len(s)])

PushChecked(list, x) == IF \E i \in 1..Len(list) : list[i].t = x.t THEN list ELSE Append(list, x)
RECURSIVE PushAllChecked(_, _)
PushAllChecked(list, xs) == IF xs = <<>> THEN list ELSE PushAllChecked(PushChecked(list, Head(xs)), Tail(xs))

=============================================================================
