------------------------------ MODULE MC_OldKar ------------------------------
(***************************************************************************)
(* C14: typing a word syllable by syllable in typewriter order with the    *)
(* old vowel-sign order option ON yields the text obtained by typing the   *)
(* same syllables in Unicode order with the option OFF.  Product           *)
(* construction: the state carries the word (a sequence of syllables) and  *)
(* the two machine states; one step types one more syllable into both      *)
(* machines.                                                               *)
(*                                                                         *)
(* Also the waiting-sign clauses: a left-standing sign typed at a syllable *)
(* start is not shown, counts as ongoing, and one backspace discards it.   *)
(***************************************************************************)
EXTENDS FixedCompose, TLC, Json

CONSTANTS MaxSyl,       \* words of up to MaxSyl syllables
          Rich          \* "base": base onsets | "rich": the larger onset set | "cons": EVERY consonant as onset and inside a conjunct

VARIABLES o,            \* helper settings (karorder is set per machine)
          w,            \* the word: sequence of syllables
          alt,          \* second half of AU typed as the sign (FALSE) or as the AU length mark (TRUE)
          tw, un        \* states of the typewriter-order machine (option on) / Unicode-order machine (option off)
vars == <<o, w, alt, tw, un>>

C1 == <<"ক">>
C2 == <<"র">>
H  == <<HASANTA>>
BaseOnsets == { <<C1>>, <<C2>>, <<C1, H, C1>>, <<C1, H, C2>>, <<C2, H, C1>>,
                <<C1, ROFOLA>>, <<C1, ZOFOLA>>, <<C2, ZOFOLA>>, <<KKHA>> }
RichOnsets == BaseOnsets \cup { <<C2, H, C2>>, <<C1, H, C1, H, C1>>, <<C2, ROFOLA>>, <<C1, H, C1, ROFOLA>>,
                                <<C1, ROFOLA, ZOFOLA>>, <<C1, H, C2, ZOFOLA>>, <<KKHA, H, C1>> }
\* consonant sweep: each of the 36 consonants alone, as first and as second member of a conjunct (second syllable of a
\* two-syllable word whose first syllable is a plain consonant or punctuation)
ConsOnsets == UNION {{ <<<<c>>>>, <<<<c>>, H, C1>>, <<C1, H, <<c>>>> } : c \in Consonants}
Onsets == IF Rich = "cons" THEN ConsOnsets ELSE IF Rich = "rich" THEN RichOnsets ELSE BaseOnsets

Syllables == [onset : Onsets, kar : Kars \cup {NUL}, chandra : BOOLEAN]
               \cup {[plain |-> <<"আ">>], [plain |-> <<"(">>], [plain |-> <<"১">>]}

On(opts)  == [opts EXCEPT !.karorder = TRUE]
Off(opts) == [opts EXCEPT !.karorder = FALSE]

Init == /\ o \in [vowel : BOOLEAN, chandra : BOOLEAN, kar : BOOLEAN, reph : BOOLEAN, karorder : {FALSE}]
        /\ alt \in BOOLEAN
        /\ w = <<>> /\ tw = Idle /\ un = Idle

AddSyllable(sy) ==
    /\ w'  = Append(w, sy)
    /\ tw' = RunKeys(tw, TypewriterKeysSyl(sy, alt), On(o))
    /\ un' = RunKeys(un, UnicodeKeysSyl(sy), Off(o))
    /\ UNCHANGED <<o, alt>>

FirstOK(sy) == (Rich = "cons" /\ Len(w) = 0) => sy \in {[onset |-> <<C1>>, kar |-> NUL, chandra |-> FALSE], [plain |-> <<"(">>]}
Next == Len(w) < MaxSyl /\ \E sy \in Syllables \cup {[onset |-> <<C1>>, kar |-> NUL, chandra |-> FALSE]} : FirstOK(sy) /\ AddSyllable(sy)
Spec == Init /\ [][Next]_vars

\* design-level C14: after every whole syllable the two machines show the same text, nothing is pending
OldOrderEquiv == tw.buf = un.buf /\ tw.pend = "none" /\ ~tw.crash /\ ~un.crash

\* the Unicode-order machine is the C12 machine: its text follows the normative chain (sanity link to C12)
\* waiting-sign clauses on the transcript: typing a left-standing sign at a syllable start
WaitingSign ==
    \A k \in LeftKars :
        LET s1 == ImplKey(tw, <<k>>, On(o)) IN
        Last(tw.buf) # HASANTA =>
            /\ s1.buf = tw.buf                      \* not shown
            /\ ImplOngoing(s1)                      \* counts as an ongoing session
            /\ ImplBackspace(s1) = tw               \* one backspace discards it (and only it)

KeysOf(syls, f(_)) == FlattenKeys([i \in 1..Len(syls) |-> f(syls[i])])

TwSyl(sy) == TypewriterKeysSyl(sy, alt)
\* The sign also waits INSIDE a syllable (after the first consonant of a conjunct it is lifted again by hasanta / a fola key and
\* waits for the next member).  pend[i][p] = according to the transcript a sign is waiting after the p-th key of syllable i:
\* the harness probes the waiting-sign clauses at each such point on a context that has typed exactly the keys so far.
StateBefore(i) == RunKeys(Idle, FlattenKeys([j \in 1..(i - 1) |-> TwSyl(w[j])]), On(o))
PendAfter(i) == [p \in 1..Len(TwSyl(w[i])) |-> RunKeys(StateBefore(i), SubSeq(TwSyl(w[i]), 1, p), On(o)).pend # "none"]
Emit == Len(w) = MaxSyl =>
    PrintT(<<"REPLAY", ToJson([mc |-> "MC_OldKar", o |-> o,
                               tw |-> [i \in 1..Len(w) |-> TypewriterKeysSyl(w[i], alt)],
                               un |-> [i \in 1..Len(w) |-> UnicodeKeysSyl(w[i])],
                               pend |-> [i \in 1..Len(w) |-> PendAfter(i)],
                               model |-> un.buf])>>)
=============================================================================
