----------------------------- MODULE MC_Session -----------------------------
(***************************************************************************)
(* Bounded instance of Riti.tla for C01 / C02 / C06 (and the method-switch *)
(* part of C11): all in-contract event histories up to Depth over a class  *)
(* alphabet of keys, both methods, a set of configurations chosen so that  *)
(* every hidden piece of state has an option that reveals it.              *)
(*                                                                         *)
(* Two uses (constant Emitting):                                           *)
(*  FALSE  design-level check: the history is NOT part of the state, list  *)
(*         lengths / preselections / empty transliterations are chosen     *)
(*         nondeterministically; invariants C01, C02, C06 on the transcript*)
(*  TRUE   behaviour generation: abstract list data is fixed, the history  *)
(*         is carried and every maximal history is printed for replay      *)
(*         through the real engine.  Selection bytes and commit indices    *)
(*         are symbolic ("zero" | "max"): the harness binds them to the    *)
(*         length the real engine returned (the contract is relative to    *)
(*         the implementation's own answers).                              *)
(***************************************************************************)
EXTENDS Riti, Json

CONSTANTS Depth, Emitting, Family     \* Family: "fixed" | "phonetic" | "mixed"

VARIABLES hist, wasBs, nsteps
vars == <<svars, hist, wasBs, nsteps>>

Opt(v, c, k, r, ko) == [vowel |-> v, chandra |-> c, kar |-> k, reph |-> r, karorder |-> ko]
NoOpt == Opt(FALSE, FALSE, FALSE, FALSE, FALSE)
Fix(name, sug, eng, o) == [name |-> name, method |-> "fixed", layout |-> "synth", sug |-> sug, english |-> eng,
                           ansi |-> FALSE, smart |-> TRUE, o |-> o]
Pho(name, sug, eng, ansi) == [name |-> name, method |-> "phonetic", layout |-> "phonetic", sug |-> sug,
                              english |-> eng, ansi |-> ansi, smart |-> TRUE, o |-> NoOpt]

F1 == Fix("F1", FALSE, FALSE, Opt(TRUE, TRUE, TRUE, TRUE, TRUE))      \* no list; old order on: pending sign
F2 == Fix("F2", TRUE, TRUE, Opt(TRUE, TRUE, TRUE, TRUE, FALSE))       \* list + English candidate reveals `typed`
F3 == Fix("F3", TRUE, TRUE, Opt(TRUE, FALSE, FALSE, FALSE, TRUE))     \* both
F4 == Fix("F4", FALSE, FALSE, NoOpt)
P1 == Pho("P1", TRUE, TRUE, FALSE)
P2 == Pho("P2", FALSE, FALSE, FALSE)
P3 == Pho("P3", TRUE, TRUE, TRUE)

Configs == CASE Family = "fixed"    -> {F1, F2, F3, F4}
             [] Family = "phonetic" -> {P1, P2, P3}
             [] OTHER               -> {F2, F3, P1, P2}
\* re-configuration targets (same data directory): option flip on the same layout, and method switch
UpdateTargets(c) == CASE c.name = "F2" -> {F3, P1} [] c.name = "F3" -> {F2} [] c.name = "F1" -> {F4}
                      [] c.name = "F4" -> {F1} [] c.name = "P1" -> {P2, F2} [] c.name = "P2" -> {P1}
                      [] c.name = "P3" -> {P1} [] OTHER -> {}

K(val, ch) == [val |-> val, ch |-> ch]
FixedKeys == {K(<<"ক">>, "k"), K(<<"ি">>, "i"), K(<<"া">>, "a"), K(<<HASANTA>>, "/"), K(<<"(">>, "("),
              K(REPH, "r"), K(ZOFOLA, "Z"), K(<<>>, "q")}
PhoneticKeys == {K(<<>>, "a"), K(<<>>, "k"), K(<<>>, "."), K(<<>>, ":"), K(<<>>, "`"), K(<<>>, "("),
                 K(<<>>, "\\"), K(<<>>, "")}
Keys == IF Phon THEN PhoneticKeys ELSE FixedKeys

\* symbolic selection bytes / commit indices
SelOf(sym)  == IF sym = "zero" \/ last.len = 0 THEN 0 ELSE last.len - 1

Record(e) == hist' = IF Emitting THEN Append(hist, e) ELSE hist

\* In Emitting mode the data-dependent parameters are fixed (they do not change the replay)
KeyE(k, s) == IF Emitting
              THEN (PhKey(k, s, MaxLen, 0, FALSE) \/ FxKey(k, MaxLen))
              ELSE Key(k, s)
BackspaceE(ctrl) == IF Emitting
                    THEN (PhBackspace(ctrl, MaxLen, 0, FALSE) \/ FxBackspace(ctrl, MaxLen))
                    ELSE Backspace(ctrl)

\* aux: the composition after the event as the transcript has it (phonetic: the typed characters - exact;
\* fixed: FixedCompose!ImplKey - descriptive)
Ev(op, val, ch, sel, c, idx, ctrl) == [op |-> op, val |-> val, ch |-> ch, sel |-> sel, cfg |-> c, idx |-> idx, ctrl |-> ctrl,
                                       aux |-> IF cfg'.method = "phonetic" THEN ph'.buf ELSE fx'.buf]

Init == /\ \E c \in Configs :
              /\ New(c)
              /\ hist = IF Emitting THEN <<[op |-> "new", val |-> <<>>, ch |-> "", sel |-> "", cfg |-> c, idx |-> "",
                                             ctrl |-> FALSE, aux |-> <<>>]>> ELSE <<>>
        /\ wasBs = FALSE /\ nsteps = 0

StepKey == \E k \in Keys, sym \in {"zero", "max"} :
              /\ (sym = "max" => (Phon /\ k.ch \in PreserveChars))     \* the byte only matters there
              /\ KeyE(k, SelOf(sym))
              /\ Record(Ev("key", k.val, k.ch, sym, "", "", FALSE))
              /\ wasBs' = FALSE
StepBs == \E ctrl \in BOOLEAN :
              /\ BackspaceE(ctrl)
              /\ Record(Ev("bs", <<>>, "", "", "", "", ctrl))
              /\ wasBs' = TRUE
StepCommit == \E sym \in {"zero", "max"} :
              /\ Commit(SelOf(sym))
              /\ Record(Ev("commit", <<>>, "", "", "", sym, FALSE))
              /\ wasBs' = FALSE
StepFinish == /\ Finish
              /\ Record(Ev("finish", <<>>, "", "", "", "", FALSE))
              /\ wasBs' = FALSE
StepUpdate == \E c \in UpdateTargets(cfg) :
              /\ Update(c)
              /\ Record(Ev("update", <<>>, "", "", c, "", FALSE))
              /\ wasBs' = FALSE

Next == /\ ~crashed
        /\ nsteps < Depth /\ nsteps' = nsteps + 1
        /\ (StepKey \/ StepBs \/ StepCommit \/ StepFinish \/ StepUpdate)
Spec == Init /\ [][Next]_vars


(* invariants *)
C01_NoCrash          == PropNoCrash
C02_WellFormed       == PropWellFormed
C02_WellFormedStrict == PropWellFormedStrict     \* fails on the current tree: known finding F05
C06_FreshWhenIdle    == PropFreshWhenIdle
C06_ShownOngoing     == PropShownImpliesOngoing
C06_EmptyBsIdle      == PropEmptyAfterBackspaceIsIdle(wasBs)

Emit == (Emitting /\ (Len(hist) = Depth + 1 \/ crashed)) =>
           PrintT(<<"REPLAY", ToJson([mc |-> "MC_Session", steps |-> hist])>>)
=============================================================================
