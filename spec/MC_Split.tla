------------------------------ MODULE MC_Split ------------------------------
(***************************************************************************)
(* C03 (and the text-level part of C17 / C09): all class strings up to     *)
(* MaxLen over {letter, digit, punctuation, quote, colon, back-tick, other *)
(* symbol}.                                                                *)
(*  - on wrapped alphanumeric words ImplSplit(text, FALSE) = PropSplit;    *)
(*  - structural invariants for every string;                              *)
(*  - smart quoting only changes quotes of the wrapping, never the word,   *)
(*    and nothing when the word is empty;                                  *)
(*  - the stored key and the looked-up key of a learned selection agree    *)
(*    (split without colon on the typed text vs. split with colon on the   *)
(*    candidate) -- see Store.tla.                                         *)
(* Emits one scenario per string for the replay harness.                   *)
(***************************************************************************)
EXTENDS Split, TLC, Json, FiniteSets

CONSTANTS MaxLen, Mode     \* Mode: "wrapped" (C03 clause 1-2, suggestions off), "any" (candidate clause, class strings),
                           \*       "chars" (candidate clause, every string over the 94 typeable characters)

VARIABLE text
ClassTokens == {"L*", "D*", "N*", "Q*", "C*", "B*", "S*"}
TypeableChars == AlnumChars \cup MetaChars \cup {":", "`", "$", "^", "\\"}      \* the 94 typeable ASCII characters
Tokens == IF Mode \in {"chars", "punctruns"} THEN TypeableChars ELSE ClassTokens

Init == text = <<>>
\* "punctruns": every run of punctuation / symbol characters around at most one letter or digit (multi-character Avro
\* patterns made of punctuation only - ",," ".`" "::" ... - sit next to a word or stand alone)
RunOK(t) == Mode = "punctruns" => (t \in AlnumChars => (t \in {"a", "k", "1"} /\ \A i \in 1..Len(text) : text[i] \notin AlnumChars))
\* ... and longer runs (to 8 characters) of ONE repeated punctuation character (greedy multi-character patterns: "...." is
\* "..." + "."), again around at most one letter or digit
Homogeneous(s) == \A i, j \in 1..Len(s) : (s[i] \notin AlnumChars /\ s[j] \notin AlnumChars) => s[i] = s[j]
LenOK(t) == Len(text) < MaxLen \/ (Mode = "punctruns" /\ Len(text) < 8 /\ Homogeneous(Append(text, t)))
Next == \E t \in Tokens : LenOK(t) /\ RunOK(t) /\ text' = Append(text, t)
Spec == Init /\ [][Next]_text

I == ImplSplit(text, FALSE)
IC == ImplSplit(text, TRUE)

Structural ==
    /\ Join3(I) = text /\ Join3(IC) = text
    /\ \A i \in 1..Len(I.pre) : IsMeta(I.pre[i])
    /\ (I.word # <<>> => ~IsMeta(I.word[1]))
    /\ \A i \in 1..Len(I.trail) : IsMeta(I.trail[i]) \/ IsColon(I.trail[i]) \/ IsTick(I.trail[i])
WrappedAgrees == IsWrappedWord(text) => I = PropSplit(text)
\* with ':' as punctuation the word can only get shorter, by colons/ticks/meta
ColonShrinks == Len(IC.word) <= Len(I.word) /\ IC.pre = I.pre
SmartQuoteLocal ==
    LET q == SmartQuote(I) IN
    /\ q.word = I.word
    /\ [i \in 1..Len(q.pre) |-> Uncurl(q.pre[i])] = I.pre
    /\ [i \in 1..Len(q.trail) |-> Uncurl(q.trail[i])] = I.trail
    /\ (I.word = <<>> => q = I)

\* C09, text level: a candidate is the word's inner text wrapped in the (transliterated, possibly curled) punctuation of the
\* typed text; stripping the candidate must give the inner text back, and the key under which it is stored must be the
\* word the lookup uses.  Checked for wrappings over the statement's punctuation (N*, Q*), whose transliteration is the
\* identity; "X*" stands for the inner text of a candidate (it has no punctuation of its own).
PunctOnly(s) == \A i \in 1..Len(s) : s[i] \in {"N*", "Q*"}
StripWrapped(parts, smart) ==
    LET w == IF smart THEN SmartQuote(Parts(parts.pre, <<"X*">>, parts.trail)) ELSE Parts(parts.pre, <<"X*">>, parts.trail)
        cand == Join3(w)
    IN ImplSplit([i \in 1..Len(cand) |-> Uncurl(cand[i])], TRUE).word
StoreRoundTrip ==
    (I.word # <<>> /\ PunctOnly(I.pre) /\ PunctOnly(I.trail)) =>
        /\ StripWrapped(I, TRUE) = <<"X*">> /\ StripWrapped(I, FALSE) = <<"X*">>
        /\ ImplSplit(I.pre \o I.word \o I.trail, FALSE).word = I.word        \* re-typing the same text looks up the same key

Strip(s) == s     \* class tokens ("L*") and literal characters are passed as they are
PhonCfg(sug, eng, smart, ansi) ==
    [layout |-> "phonetic", psug |-> sug, fsug |-> FALSE, english |-> eng, ansi |-> ansi, smart |-> smart,
     vowel |-> FALSE, chandra |-> FALSE, kar |-> FALSE, reph |-> FALSE, numpad |-> TRUE, karorder |-> FALSE, db |-> sug]

Scenario ==
    IF Mode = "wrapped" THEN
        LET p == PropSplit(text) IN
        [mc |-> "Script", site |-> "translit", variants |-> 3, reuse |-> FALSE,
         vars |-> [P |-> Strip(p.pre), W |-> Strip(p.word), Q |-> Strip(p.trail), X |-> <<"L*", "L*", "L*">>, Y |-> <<"L*">>],
         \* A, B: brand-new contexts; C: the same context has composed another word before (and finished it), then types the
         \* text with one wrong extra character that is removed again
         runs |-> [A |-> <<[op |-> "new", cfg |-> PhonCfg(FALSE, FALSE, TRUE, FALSE)], [op |-> "type", text |-> <<"$P", "$W", "$Q">>]>>,
                   B |-> <<[op |-> "new", cfg |-> PhonCfg(FALSE, TRUE, FALSE, TRUE)], [op |-> "type", text |-> <<"$P", "$W", "$Q">>]>>,
                   C |-> <<[op |-> "new", cfg |-> PhonCfg(FALSE, FALSE, TRUE, FALSE)], [op |-> "type", text |-> <<"$X">>], [op |-> "finish"],
                           [op |-> "type", text |-> <<"$P", "$W", "$Q", "$Y">>], [op |-> "bs", ctrl |-> FALSE]>>],
         checks |-> <<[k |-> "translit", at |-> <<"A", 1>>, parts |-> <<"$P", "$W", "$Q">>, mode |-> "single"],
                      [k |-> "translit", at |-> <<"B", 1>>, parts |-> <<"$P", "$W", "$Q">>, mode |-> "single"],
                      [k |-> "translit", at |-> <<"C", 4>>, parts |-> <<"$P", "$W", "$Q">>, mode |-> "single"]>>]
    ELSE
        [mc |-> "Script", site |-> "translit", variants |-> 2, reuse |-> TRUE,
         vars |-> [P |-> Strip(I.pre), W |-> Strip(I.word), Q |-> Strip(I.trail)],
         runs |-> [A |-> <<[op |-> "new", cfg |-> PhonCfg(TRUE, TRUE, TRUE, FALSE)], [op |-> "type", text |-> <<"$P", "$W", "$Q">>]>>,
                   B |-> <<[op |-> "new", cfg |-> PhonCfg(TRUE, FALSE, FALSE, TRUE)], [op |-> "type", text |-> <<"$P", "$W", "$Q">>]>>,
                   C |-> <<[op |-> "new", cfg |-> PhonCfg(TRUE, FALSE, FALSE, FALSE)], [op |-> "type", text |-> <<"$P", "$W", "$Q">>]>>],
         checks |-> <<[k |-> "translit", at |-> <<"A", 1>>, parts |-> <<"$P", "$W", "$Q">>, mode |-> "cand"],
                      [k |-> "translit", at |-> <<"B", 1>>, parts |-> <<"$P", "$W", "$Q">>, mode |-> "cand"],
                      [k |-> "translit", at |-> <<"C", 1>>, parts |-> <<"$P", "$W", "$Q">>, mode |-> "cand"]>>]

\* (the word of the statement ranges over [A-Za-z0-9]*: punctuation-only texts are the case of the empty word)
PunctOnlyText == \A i \in 1..Len(text) : IsPunct(text[i])
Emit == (Mode # "design" /\ text # <<>> /\ (Mode = "wrapped" => (IsWrappedWord(text) \/ PunctOnlyText))) => PrintT(<<"REPLAY", ToJson(Scenario)>>)
=============================================================================
