------------------------------ MODULE MC_Store2 ------------------------------
(***************************************************************************)
(* The learned-selection store with SEVERAL live contexts over one         *)
(* user-data directory (two engine instances of one desktop session, or a  *)
(* front end that keeps a context per client).  Every context holds its    *)
(* own copy of the map, loaded when it was created, and every learning     *)
(* commit rewrites the WHOLE file from that copy (MC_Store!Commit).        *)
(*                                                                         *)
(* C09 quantifies over one context and its restarts, so this module        *)
(* decides no listed property.  It records what the design does outside    *)
(* that quantifier:  TLC finds the lost update in three steps -            *)
(*   context 1 learns w,  context 2 (created before) learns v,  restart    *)
(*   -> the choice for w is gone from the file -                           *)
(* i.e. NoLostUpdate is violated for Contexts = 2 and holds for            *)
(* Contexts = 1 (where it is MC_Store!SurvivesRestart).  bin/check C09     *)
(* runs both and reports the outcome as an observation in the evidence     *)
(* file (coverage.observations), never as a violation.                     *)
(***************************************************************************)
EXTENDS Naturals, FiniteSets, TLC

CONSTANTS Contexts, MaxSteps

Words == {"w", "v"}
Cands == 0..1
None  == 99
Ctx   == 1..Contexts

VARIABLES mem,    \* context -> (word -> candidate index or None)
          file,   \* word -> candidate index or None
          own,    \* what the user chose explicitly, in whichever context
          steps
vars == <<mem, file, own, steps>>

Nothing == [x \in Words |-> None]
Init == mem = [c \in Ctx |-> Nothing] /\ file = Nothing /\ own = Nothing /\ steps = 0

Preselected(m, x) == IF m[x] # None THEN m[x] ELSE 0

Commit(c, x, i) ==
    IF i # Preselected(mem[c], x)
    THEN /\ mem' = [mem EXCEPT ![c] = [@ EXCEPT ![x] = i]]
         /\ file' = mem'[c]                        \* the whole map of THIS context is written
         /\ own' = [own EXCEPT ![x] = i]
    ELSE UNCHANGED <<mem, file, own>>
Restart(c) == mem' = [mem EXCEPT ![c] = file] /\ UNCHANGED <<file, own>>

Next == /\ steps < MaxSteps /\ steps' = steps + 1
        /\ \/ \E c \in Ctx, x \in Words, i \in Cands : Commit(c, x, i)
           \/ \E c \in Ctx : Restart(c)
Spec == Init /\ [][Next]_vars

\* every explicit choice is in the file (a context created now remembers it)
NoLostUpdate == \A x \in Words : own[x] # None => Preselected(file, x) = own[x]
=============================================================================
