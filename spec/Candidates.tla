----------------------------- MODULE Candidates -----------------------------
(***************************************************************************)
(* Candidate lists (C03 candidate clause, C07, C08, C16, C18).             *)
(*                                                                         *)
(* The data-dependent atoms - the Avro transliteration, the dictionary,    *)
(* the Avro pattern match, edit distance, the emoji tables, the Bijoy      *)
(* encoder - are UNINTERPRETED here: a list event carries FACTS computed   *)
(* by oracles that share no code with riti's own use of them, and every    *)
(* property is a relation over the facts, decided by TLC.                  *)
(*                                                                         *)
(* A list event e (phonetic method):                                       *)
(*   typed, english, ansi, smart, sel                                      *)
(*   cands[i] = [t (text), emoji, pre_eq, pre_bijoy, pre_bn, readable]     *)
(*   tlp[k+1] / tls[k+1]  transliteration of the first / last k characters *)
(*   w0, w1   the word the facts below are about (the recorder's proposal,  *)
(*            compared with the specification's own split)                 *)
(*   tlw      transliteration of the word                                  *)
(*   directs  direct candidates of the word: [t, dist, ac in "" user sys]  *)
(*   splits   [at, sfx, directs] for every split word = base . suffix key  *)
(*   emoticon emoji of the typed text if it is an emoticon (else empty)    *)
(*   names    emoji listed for the word if it is an emoji name             *)
(***************************************************************************)
EXTENDS Store, FiniteSets, TLC

Range(s) == {s[i] : i \in DOMAIN s}

\* ----- the shape of the event ------------------------------------------------
SplitOf(e)  == ImplSplit(e.typed, FALSE)
\* does the recorder's word coincide with the specification's split?
WordAgrees(e) == LET p == SplitOf(e) IN Len(p.pre) = e.w0 /\ Len(p.pre) + Len(p.word) = e.w1
Wrap(e) ==
    LET p   == SplitOf(e)
        raw == Parts(e.tlp[Len(p.pre) + 1], p.word, e.tls[Len(p.trail) + 1])
    IN IF e.smart THEN SmartQuote(raw) ELSE raw
Wrapped(e, x) == Wrap(e).pre \o x \o Wrap(e).trail
Texts(e) == [i \in DOMAIN e.cands |-> e.cands[i].t]

Translit(e)   == Wrapped(e, e.tlw)                          \* the plain transliteration, wrapped
IsEmoticon(e) == e.emoticon # <<>>
AcOf(e)       == {d \in Range(e.directs) : d.ac # ""}        \* at most one: the user entry wins over the bundled one
DictOf(e)     == {d \in Range(e.directs) : d.ac = ""}

\* joined forms through a split:  [t |-> text, dist |-> inherited distance (0 for an auto-correct base)]
\* - every form that the facts can justify (soundness direction, C08 clause 1)
Joined(e) == UNION {{[t |-> Join(d.t, sp.sfx), dist |-> d.dist, first |-> d.ac # ""] : d \in Range(sp.directs)} : sp \in Range(e.splits)}
\* - the forms that MUST be offered (completeness, C08 clause 2): the base is a word of its own, and the direct
\*   candidate was actually offered when the base alone was typed (sp.offered = that list)
BaseOf(e, sp) == SubSeq(SplitOf(e).word, 1, sp.at)
\*   (riti selects its dictionary tables by a lower-case first letter; for any other first character no dictionary
\*    search exists and a dictionary word can only be offered as the transliteration it happens to equal - such a
\*    base contributes its auto-correct entry only)
LowerCase == {"a","b","c","d","e","f","g","h","i","j","k","l","m","n","o","p","q","r","s","t","u","v","w","x","y","z"}
JoinedDue(e) == UNION {{Join(d.t, sp.sfx) : d \in {d \in Range(sp.directs) : d.t \in Range(sp.offered) /\ (d.ac # "" \/ BaseOf(e, sp)[1] \in LowerCase)}} :
                          sp \in {sp \in Range(e.splits) : KeyOf(BaseOf(e, sp)) = BaseOf(e, sp) /\ ImplSplit(BaseOf(e, sp), FALSE).pre = <<>>}}

\* ----- classification of one candidate text x ---------------------------------
IsAc(e, x)       == \E d \in AcOf(e) : x = Wrapped(e, d.t)
IsTranslit(e, x) == x = Translit(e)
IsRaw(e, x)      == x = e.typed
EmojiTexts(e)    == {Wrapped(e, e.names[i]) : i \in DOMAIN e.names} \cup (IF IsEmoticon(e) THEN {e.emoticon} ELSE {})
IsEmoji(e, x)    == x \in EmojiTexts(e)
\* admissible distances of x as a dictionary-derived candidate (empty = not justified as one)
DictDists(e, x)  == {d.dist : d \in {d \in DictOf(e) : x = Wrapped(e, d.t)}}
                    \cup {j.dist : j \in {j \in Joined(e) : x = Wrapped(e, j.t)}}
IsDictLike(e, x) == DictDists(e, x) # {}

\* ----- C08 -------------------------------------------------------------------
\* every candidate is justified by one of the sources
PropJustified(e) ==
    \A i \in DOMAIN e.cands :
        LET x == e.cands[i].t IN
        IsAc(e, x) \/ IsTranslit(e, x) \/ IsEmoji(e, x) \/ IsRaw(e, x) \/ IsDictLike(e, x)
\* a word longer than two characters that is base + known suffix offers every direct candidate of the base, joined
PropSuffixComplete(e) ==
    (e.w1 - e.w0 > 2) => \A j \in JoinedDue(e) : Wrapped(e, j) \in Range(Texts(e))

\* ----- C07 -------------------------------------------------------------------
NoDuplicates(e) == \A i, j \in DOMAIN e.cands : i # j => e.cands[i].t # e.cands[j].t
AcFirst(e) == (AcOf(e) # {}) => IsAc(e, e.cands[1].t)
RECURSIVE NonDecreasing(_, _, _)
\* greedy: walk the list, for every dictionary-like candidate pick the smallest admissible distance >= the last one
NonDecreasing(e, i, lastd) ==
    IF i > Len(e.cands) THEN TRUE
    ELSE LET x == e.cands[i].t
             ds == {d \in DictDists(e, x) : d >= lastd}
         IN IF IsAc(e, x) /\ i = 1 THEN NonDecreasing(e, i + 1, lastd)
            ELSE IF ~IsDictLike(e, x) THEN NonDecreasing(e, i + 1, lastd)
            ELSE ds # {} /\ NonDecreasing(e, i + 1, CHOOSE d \in ds : \A d2 \in ds : d <= d2)
\* the plain transliteration comes after every dictionary word, unless it is one itself
TranslitAfterDict(e) ==
    \A i, j \in DOMAIN e.cands :
        (IsTranslit(e, e.cands[i].t) /\ ~IsDictLike(e, e.cands[i].t) /\ ~IsAc(e, e.cands[i].t) /\ IsDictLike(e, e.cands[j].t)
            /\ ~IsAc(e, e.cands[j].t)) => j < i
\* the raw English text, when the option is on, is last (an emoticon's literal text is a different source, C18)
EnglishLast(e) ==
    (e.english /\ ~IsEmoticon(e)) =>
        \A i \in DOMAIN e.cands : (IsRaw(e, e.cands[i].t) /\ ~IsTranslit(e, e.cands[i].t) /\ ~IsDictLike(e, e.cands[i].t)) => i = Len(e.cands)
\* no emoji before a dictionary word that equals the transliteration
NoEmojiBeforeExact(e) ==
    ~IsEmoticon(e) =>       \* (an emoticon's own emoji is governed by C18)
    \A i, j \in DOMAIN e.cands :
        (e.cands[i].emoji /\ IsTranslit(e, e.cands[j].t) /\ IsDictLike(e, e.cands[j].t)) => j < i
PropOrderPhonetic(e) ==
    /\ NoDuplicates(e) /\ AcFirst(e) /\ NonDecreasing(e, 1, 0) /\ TranslitAfterDict(e) /\ EnglishLast(e) /\ NoEmojiBeforeExact(e)

\* ----- C03 candidate clause ----------------------------------------------------
PropHasTranslit(e) == \E i \in DOMAIN e.cands : IsTranslit(e, e.cands[i].t)

\* ----- C16 -------------------------------------------------------------------
PropAnsi(e) ==
    IF e.ansi
    THEN \A i \in DOMAIN e.cands :
            LET c == e.cands[i] IN
            /\ ~c.emoji
            /\ (IsRaw(e, c.t) => (IsTranslit(e, c.t) \/ IsDictLike(e, c.t) \/ IsAc(e, c.t)))   \* never offered AS the raw text
            /\ c.readable /\ c.pre_bijoy /\ ~c.pre_bn
    ELSE \A i \in DOMAIN e.cands : e.cands[i].readable /\ e.cands[i].pre_eq

\* ----- C18 (phonetic) ---------------------------------------------------------
RECURSIVE IsSubseq(_, _)
IsSubseq(a, b) == IF a = <<>> THEN TRUE ELSE IF b = <<>> THEN FALSE
                  ELSE IF Head(a) = Head(b) THEN IsSubseq(Tail(a), Tail(b)) ELSE IsSubseq(a, Tail(b))
PropEmoji(e) ==
    ~e.ansi =>
        /\ IsEmoticon(e) => (e.emoticon \in Range(Texts(e)) /\ e.typed \in Range(Texts(e)))
        /\ (~IsEmoticon(e) /\ e.names # <<>>) => IsSubseq([i \in DOMAIN e.names |-> Wrapped(e, e.names[i])], Texts(e))
-----------------------------------------------------------------------------
(***************************************************************************)
(* Fixed-layout lists (C15; C16 / C18 fixed part).  A list event f:        *)
(*   keys (raw key text), comp (composed text = auxiliary text), english,  *)
(*   ansi, smart, kar, bs (a backspace was used), sel,                     *)
(*   cands[i] = [t, emoji, dictword, prefix, dist, pre_eq, pre_bijoy, ...] *)
(*   w0, w1 (the recorder's proposal for the word), emoticon, names        *)
(***************************************************************************)
FSplit(f) == ImplSplit(f.comp, TRUE)                 \* the fixed method counts ':' as punctuation
FWordAgrees(f) == LET p == FSplit(f) IN Len(p.pre) = f.w0 /\ Len(p.pre) + Len(p.word) = f.w1
FWrap(f) == IF f.smart THEN SmartQuote(FSplit(f)) ELSE FSplit(f)
FWrapped(f, x) == FWrap(f).pre \o x \o FWrap(f).trail
FTexts(f) == [i \in DOMAIN f.cands |-> f.cands[i].t]
\* the raw key text offered last.  Once a backspace was used the statement no longer says WHICH raw text it is (the key
\* buffer and the composition are popped independently); what it still says is that every BENGALI candidate is justified -
\* so after a correction a last candidate made of ASCII characters only is taken for the raw key text.
FIsEnglish(f, i) == /\ f.english /\ i = Len(f.cands)
                    /\ IF f.bs THEN i > 1 /\ f.cands[i].ascii ELSE f.cands[i].t = f.keys /\ f.keys # f.comp
FEmojiTexts(f) == {FWrapped(f, f.names[i]) : i \in DOMAIN f.names} \cup (IF f.emoticon # <<>> THEN {f.emoticon} ELSE {})

\* the first candidate is the composed text itself, with smart-quote curling applied
FFirstIsComposed(f) == f.cands[1].t = Join3(FWrap(f))
\* every other non-emoji Bengali candidate is a dictionary word that begins with the typed word
FCompletions(f) == \A i \in 2..Len(f.cands) :
                      (~f.cands[i].emoji /\ ~FIsEnglish(f, i)) => (f.cands[i].dictword /\ f.cands[i].prefix)
RECURSIVE FNonDecreasing(_, _, _)
FNonDecreasing(f, i, lastd) ==
    IF i > Len(f.cands) THEN TRUE
    ELSE IF f.cands[i].emoji \/ FIsEnglish(f, i) THEN FNonDecreasing(f, i + 1, lastd)
    ELSE f.cands[i].dist >= lastd /\ FNonDecreasing(f, i + 1, f.cands[i].dist)
FAtMostNine(f) == Len(f.cands) <= 9
FNoRepeats(f)  == \A i, j \in DOMAIN f.cands : i # j => f.cands[i].t # f.cands[j].t
\* English option on, no backspace used: the last candidate is the raw key text unless it equals the composed text
FEnglishLast(f) == (f.english /\ ~f.bs /\ f.keys # f.comp) => f.cands[Len(f.cands)].t = f.keys
PropFixedList(f) == FFirstIsComposed(f) /\ FCompletions(f) /\ FNonDecreasing(f, 1, 0) /\ FAtMostNine(f) /\ FNoRepeats(f) /\ FEnglishLast(f)

\* C16 (fixed): in ANSI mode no emoji and no raw-English candidate; pre-edit text = Bijoy encoding without Bengali code points
FPropAnsi(f) ==
    IF f.ansi
    THEN \A i \in DOMAIN f.cands :
            LET c == f.cands[i] IN
            /\ ~c.emoji
            /\ (i > 1 /\ c.t = f.keys /\ f.keys # f.comp => (c.dictword /\ c.prefix))
            /\ c.readable /\ c.pre_bijoy /\ ~c.pre_bn
    ELSE \A i \in DOMAIN f.cands : f.cands[i].readable /\ f.cands[i].pre_eq

\* C18 (fixed): the emoticon typed with the raw keys offers its emoji; a Bengali emoji name offers all its emoji in
\* table order, wrapped like the word
\* Known finding F16: the fixed list is cut to nine (C15), so a name with more than eight emoji cannot show them all;
\* what is shown must still be a prefix of the table order.  Accepted explicitly, and reported.
FEmojiShown(f) == SelectSeq(FTexts(f), LAMBDA x : x \in FEmojiTexts(f))
IsPrefixOf(a, b) == Len(a) <= Len(b) /\ a = SubSeq(b, 1, Len(a))
FPropEmoji(f) ==
    ~f.ansi =>
        /\ f.emoticon # <<>> => f.emoticon \in Range(FTexts(f))
        /\ (f.emoticon = <<>> /\ f.names # <<>>) =>
              LET want == [i \in DOMAIN f.names |-> FWrapped(f, f.names[i])] IN
              IF Len(f.names) <= 8 THEN IsSubseq(want, FTexts(f))
              ELSE IsPrefixOf(FEmojiShown(f), want) /\ Len(f.cands) = 9 /\ PrintT(<<"TRACE-KNOWN", "F16", 0>>)
=============================================================================
