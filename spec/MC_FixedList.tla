---------------------------- MODULE MC_FixedList ----------------------------
(***************************************************************************)
(* Design-level model of the FIXED-layout candidate list (C15, C16 gate,   *)
(* C18 order): the transcript of FixedMethod::create_dictionary_suggestion *)
(* - the typed word first-ranked, the dictionary hits in table order with  *)
(* their distance ranks, the CONSECUTIVE-only de-duplication, the emoticon *)
(* emoji or the emoji of a Bengali name, the stable sort with the          *)
(* four-variant comparator, the cut to nine (eight + the raw key text) -   *)
(* checked against the clauses of the statements for every small sequence  *)
(* of hits and every option setting.                                       *)
(*                                                                         *)
(* The de-duplication is consecutive-only, so "no candidate repeats" rests *)
(* on two facts about the DATA, stated here as DataOK and checked on the   *)
(* real dictionary by the recorder (event `dictfacts`, Trace_Cands):       *)
(*   ExactFirst   if the typed word is itself a hit, it is the first hit   *)
(*   AdjacentDup  equal hits are adjacent in table order                   *)
(* With AssumeData = FALSE TLC shows that each is needed (FNoRepeats       *)
(* fails).                                                                 *)
(***************************************************************************)
EXTENDS Ranking, TLC

CONSTANTS MaxDict, MaxEmoji, AssumeData

VARIABLES word,      \* the typed (composed) word
          dict,      \* sequence of [t, d]: dictionary hits in table order with their distance from the word
          emoticon,  \* the raw key text is an emoticon (its emoji is "e1")
          emojis,    \* number of emoji the word has as a Bengali emoji name
          rawSame,   \* the raw key text equals the composed text (only ASCII-valued keys were pressed)
          english, ansi
vars == <<word, dict, emoticon, emojis, rawSame, english, ansi>>

RawText == IF rawSame THEN word ELSE "r"

ExactFirst(d)  == \A i \in 1..Len(d) : d[i].t = word => i = 1 \/ \A j \in 1..i : d[j].t = word
AdjacentDup(d) == \A i, j \in 1..Len(d) : (i < j /\ d[i].t = d[j].t) => \A k \in i..j : d[k].t = d[i].t
\* distance 0 exactly for the word itself (edit distance)
DistOK(d)      == \A i \in 1..Len(d) : (d[i].d = 0) <=> (d[i].t = word)
DataOK(d)      == DistOK(d) /\ (AssumeData => ExactFirst(d) /\ AdjacentDup(d))

Init == /\ word \in Texts
        /\ dict = <<>>
        /\ emoticon \in BOOLEAN /\ emojis \in 0..MaxEmoji
        /\ rawSame \in BOOLEAN
        /\ english \in BOOLEAN /\ ansi \in BOOLEAN
\* second step: the hits (two steps so that TLC's workers share the enumeration)
Next == /\ dict = <<>>
        /\ \E d \in UNION {[1..n -> [t : Texts, d : Dists]] : n \in 1..MaxDict} : DataOK(d) /\ dict' = d
        /\ UNCHANGED <<word, emoticon, emojis, rawSame, english, ansi>>
Spec == Init /\ [][Next]_vars

EnglishOn == english /\ ~ansi        \* the option is masked by ANSI (config getter)

\* Vec::dedup(): removes CONSECUTIVE items with equal text
RECURSIVE Dedup(_)
Dedup(s) == IF Len(s) <= 1 THEN s
            ELSE LET r == Dedup(SubSeq(s, 1, Len(s) - 1)) IN
                 IF r[Len(r)].t = s[Len(s)].t THEN r ELSE Append(r, s[Len(s)])
Cut(s, n) == SubSeq(s, 1, IF Len(s) < n THEN Len(s) ELSE n)

ImplFixedList ==
    LET l1 == Dedup(<<First(word)>> \o [i \in 1..Len(dict) |-> Other(dict[i].t, dict[i].d, "dict")])
        l2 == IF ansi THEN l1
              ELSE IF emoticon THEN Append(l1, Emoji("e1", 1))
              ELSE l1 \o [i \in 1..emojis |-> Emoji(EmojiText[i], i)]
        l3 == SortRanks(l2)
    IN IF EnglishOn /\ ~rawSame THEN Append(Cut(l3, 8), Last(RawText, 1, "english")) ELSE Cut(l3, 9)

L == ImplFixedList

\* ----- the clauses of C15 / C16 / C18 on the assembled list ---------------------
FFirstIsWord   == L[1].v = "First" /\ L[1].t = word
FAtMostNine    == Len(L) <= 9 /\ Len(L) >= 1
FNoRepeats     == \A i, j \in 1..Len(L) : i # j => L[i].t # L[j].t
FNonDecreasing == \A i, j \in 1..Len(L) : (i < j /\ L[i].v = "Other" /\ L[j].v = "Other") => L[i].n <= L[j].n
FEnglishLast   == /\ (EnglishOn /\ ~rawSame) => L[Len(L)].src = "english" /\ L[Len(L)].t = RawText
                  /\ \A i \in 1..Len(L) : L[i].src = "english" => (i = Len(L) /\ EnglishOn /\ ~rawSame)
FAnsiGate      == ansi => \A i \in 1..Len(L) : L[i].src \notin {"emoji", "english"}
\* C18: the emoji that are shown are the FIRST emoji of the name, in table order (the cut to nine can drop the tail: F16)
ShownEmoji     == SelectSeq(L, LAMBDA x : x.v = "Emoji")
FEmojiPrefix   == (~emoticon /\ ~ansi) => \A i \in 1..Len(ShownEmoji) : ShownEmoji[i].t = EmojiText[i]
\* ... and all of them whenever the list has room (at most eight / seven other entries)
FEmojiAllIfRoom ==
    (~emoticon /\ ~ansi /\ Len(Dedup(<<First(word)>> \o [i \in 1..Len(dict) |-> Other(dict[i].t, dict[i].d, "dict")])) + emojis
        <= (IF EnglishOn /\ ~rawSame THEN 8 ELSE 9)) => Len(ShownEmoji) = emojis
FEmoticonShown == (emoticon /\ ~ansi /\ Len(dict) <= 6) => \E i \in 1..Len(L) : L[i].t = "e1"
=============================================================================
