------------------------------ MODULE MC_Update ------------------------------
(***************************************************************************)
(* C11: update-engine on an idle context == a context newly created with   *)
(* the new configuration over the same user files.                         *)
(*                                                                         *)
(* Model: configurations, the user auto-correct file (word -> version of   *)
(* its entry, 0 = no entry) with its modification stamp, the loaded copy   *)
(* and the stamp it was loaded at, and the per-context memo, whose entries *)
(* embed the auto-correct answer that was valid when they were computed.   *)
(* Invariant UpdatedEquivFresh: right after Update the answer the context  *)
(* would give for every word equals the answer of a context created fresh  *)
(* over the current file.                                                  *)
(* Every history  [pre-typing] [edit of the file] update [post-typing]  is *)
(* emitted as a pair (updated context vs. fresh context) for the replay    *)
(* harness, which also writes the file and sets its mtime explicitly.      *)
(***************************************************************************)
EXTENDS Naturals, Sequences, FiniteSets, TLC, Json

CONSTANTS Deep,     \* TRUE: more histories
          Twice,    \* TRUE: two update-engine calls in a row per history (fewer words, no typing before)
          GoneKeepsLoaded   \* TRUE: transcript of the pinned tree (a deleted file leaves the loaded entries in place)

\* (the quoted word makes the smart-quote option observable; it never gets an auto-correct entry of its own)
Quoted == "\"as'"
AllWords == {"as", "help", "academy", Quoted}
Words == IF Twice THEN {"as", "academy", Quoted} ELSE IF Deep THEN AllWords ELSE {"as", "help", Quoted}
EditWords == Words \ {Quoted}

PC(sug, eng, smart, ansi) ==
    [layout |-> "phonetic", psug |-> sug, fsug |-> FALSE, english |-> eng, ansi |-> ansi, smart |-> smart,
     vowel |-> FALSE, chandra |-> FALSE, kar |-> FALSE, reph |-> FALSE, numpad |-> TRUE, karorder |-> FALSE, db |-> TRUE]
FC(lay, sug, eng, vowel, ko) ==
    [layout |-> lay, psug |-> FALSE, fsug |-> sug, english |-> eng, ansi |-> FALSE, smart |-> TRUE,
     vowel |-> vowel, chandra |-> TRUE, kar |-> TRUE, reph |-> TRUE, numpad |-> TRUE, karorder |-> ko, db |-> TRUE]
\* layouts: "probhat" the bundled file; "probhat2" a file with the SAME NAME in another directory whose plain letter keys differ
\* (the words typed here go through plain keys only, so "synth" - AltGr additions - types like "probhat")
AllConfigs == {PC(TRUE, FALSE, TRUE, FALSE), PC(TRUE, TRUE, FALSE, FALSE), PC(FALSE, FALSE, TRUE, FALSE), PC(TRUE, FALSE, TRUE, TRUE),
               FC("probhat", TRUE, TRUE, TRUE, FALSE), FC("synth", TRUE, TRUE, TRUE, FALSE), FC("probhat", FALSE, FALSE, FALSE, TRUE),
               FC("probhat2", FALSE, TRUE, TRUE, FALSE)}
FewConfigs == {PC(TRUE, FALSE, TRUE, FALSE), PC(TRUE, TRUE, FALSE, FALSE), PC(TRUE, FALSE, TRUE, TRUE),
               FC("probhat", TRUE, TRUE, TRUE, FALSE), FC("probhat2", FALSE, FALSE, FALSE, TRUE)}
TwiceConfigs == {PC(TRUE, FALSE, TRUE, FALSE), PC(FALSE, FALSE, TRUE, FALSE), FC("probhat", TRUE, TRUE, TRUE, FALSE)}
Configs == IF Twice THEN TwiceConfigs ELSE IF Deep THEN AllConfigs ELSE FewConfigs
MaxEdits == IF Deep THEN 2 ELSE 1
Phon(c) == c.layout = "phonetic"

\* phase: "pre" (typing before), "edit" (file edits), "post" (after the update)
VARIABLES cfg, file, stamp, loaded, loadedAt, memo, phase, hist,
          fstate    \* "ok" | "corrupt" (not parsable any more) | "gone" (deleted); `file` is the EFFECTIVE content (no entries unless ok)
vars == <<cfg, file, stamp, loaded, loadedAt, memo, phase, hist, fstate>>

NoEntries == [w \in AllWords |-> 0]

Init == /\ cfg \in Configs
        /\ file \in {NoEntries, [NoEntries EXCEPT !["as"] = 1]}      \* the file the context starts over
        /\ stamp = 1
        /\ loaded = (IF Phon(cfg) THEN file ELSE NoEntries) /\ loadedAt = (IF Phon(cfg) /\ file # NoEntries THEN 1 ELSE 0)
        /\ memo = [w \in {} |-> 0]
        /\ phase = "pre" /\ fstate = "ok"
        /\ hist = <<[op |-> "start", cfg |-> cfg, file |-> file, w |-> ""]>>

\* is there a file at all?  (a context that starts over no entries starts without the file)
Exists == fstate # "gone" /\ ~(stamp = 1 /\ file = NoEntries)

WordRank(w) == CASE w = "as" -> 1 [] w = "help" -> 2 [] w = "academy" -> 3 [] OTHER -> 4

\* typing a word and finishing it: the memo remembers the answer computed now
Updates == {j \in 1..Len(hist) : hist[j].op = "update"}
LastUpd == CHOOSE j \in Updates : \A k \in Updates : k <= j
MaxUpdates == IF Twice THEN 2 ELSE 1
TypesSinceUpd == Cardinality({i \in 1..Len(hist) : hist[i].op = "type" /\ i > LastUpd})

Type(w) ==
    /\ phase \in {"pre", "post"}
    /\ (phase = "pre" => Cardinality({i \in 1..Len(hist) : hist[i].op = "type"}) < (IF Twice THEN 0 ELSE 1))
    /\ (phase = "post" => TypesSinceUpd < 2)
    \* (the two words typed after the update: unordered pairs, a word may be typed twice)
    /\ ((phase = "post" /\ TypesSinceUpd = 1) => WordRank(w) >= WordRank(hist[Len(hist)].w))
    /\ memo' = IF Phon(cfg) /\ cfg.psug /\ w \notin DOMAIN memo THEN [x \in DOMAIN memo \cup {w} |-> IF x = w THEN loaded[w] ELSE memo[x]] ELSE memo
    /\ hist' = Append(hist, [op |-> "type", cfg |-> cfg, file |-> file, w |-> w])
    /\ UNCHANGED <<cfg, file, stamp, loaded, loadedAt, phase, fstate>>

\* the user edits the auto-correct file: an entry is added, changed or REMOVED (content change, newer modification time)
Edit(w) ==
    /\ phase \in {"pre", "edit"}
    /\ Cardinality({i \in 1..Len(hist) : hist[i].op \in {"edit", "corrupt", "gone"}}) < MaxEdits
    /\ \E v \in 0..2 :
          /\ v # file[w]
          /\ file' = [file EXCEPT ![w] = v] /\ stamp' = stamp + 1
          /\ hist' = Append(hist, [op |-> "edit", cfg |-> cfg, file |-> file', w |-> w])
    /\ phase' = "edit" /\ fstate' = "ok"
    /\ UNCHANGED <<cfg, loaded, loadedAt, memo>>

\* ... or the file is damaged (no longer parsable, newer modification time) or deleted: it holds no entries any more
Break(k) ==
    /\ phase \in {"pre", "edit"}
    /\ Cardinality({i \in 1..Len(hist) : hist[i].op \in {"edit", "corrupt", "gone"}}) < MaxEdits
    /\ fstate # k /\ ~(k = "gone" /\ file = NoEntries /\ stamp = 1)        \* (deleting a file that never existed is no event)
    /\ file' = NoEntries /\ stamp' = stamp + 1 /\ fstate' = k
    /\ hist' = Append(hist, [op |-> k, cfg |-> cfg, file |-> file', w |-> ""])
    /\ phase' = "edit"
    /\ UNCHANGED <<cfg, loaded, loadedAt, memo>>

\* update_engine (idle): a changed layout replaces the method object; otherwise the phonetic method reloads
\* the user auto-correct list when the file's stamp advanced.  The memo is cleared together with the reload
\* (fix F08; the pinned tree kept it).
Update(c) ==
    /\ Cardinality(Updates) < MaxUpdates
    \* a second update follows the first directly (several updates in a row), on the same layout
    /\ (phase \in {"pre", "edit"} \/ (phase = "post" /\ TypesSinceUpd = 0 /\ c.layout = cfg.layout))
    /\ cfg' = c
    /\ IF c.layout # cfg.layout
       THEN /\ memo' = [w \in {} |-> 0]
            /\ loaded' = (IF Phon(c) THEN file ELSE NoEntries) /\ loadedAt' = (IF Phon(c) /\ Exists THEN stamp ELSE 0)
       ELSE IF Phon(c) /\ fstate = "gone"
            \* the file cannot be opened: the pinned tree kept the entries it had loaded (GoneKeepsLoaded); after fix F22 they
            \* are forgotten like in a context created now
            THEN IF GoneKeepsLoaded \/ loadedAt = 0 THEN UNCHANGED <<loaded, loadedAt, memo>>
                 ELSE loaded' = NoEntries /\ loadedAt' = 0 /\ memo' = [w \in {} |-> 0]
       ELSE IF Phon(c) /\ stamp > loadedAt
            THEN loaded' = file /\ loadedAt' = stamp /\ memo' = [w \in {} |-> 0]   \* the memo is dropped with the reload
            ELSE UNCHANGED <<loaded, loadedAt, memo>>
    /\ phase' = "post"
    /\ hist' = Append(hist, [op |-> "update", cfg |-> c, file |-> file, w |-> ""])
    /\ UNCHANGED <<file, stamp, fstate>>

Next == (\E w \in Words : Type(w)) \/ (\E w \in EditWords : Edit(w)) \/ (\E c \in Configs : Update(c)) \/ (\E k \in {"corrupt", "gone"} : Break(k))
Spec == Init /\ [][Next]_vars

\* the answer the context gives for w now vs. the answer of a fresh context over the current file
Answer(w) == IF w \in DOMAIN memo THEN memo[w] ELSE loaded[w]
UpdatedEquivFresh == (phase = "post" /\ Phon(cfg) /\ cfg.psug) => \A w \in Words : Answer(w) = file[w]

(* ----- scenario ---------------------------------------------------------- *)
Content(f) == f     \* the harness renders the file: entry version v of word w -> a distinct Avro spelling
StepsA == [i \in 1..Len(hist) |->
              CASE hist[i].op = "start"  -> [op |-> "new", cfg |-> hist[i].cfg, acfile |-> hist[i].file, stamp |-> 1, w |-> ""]
                [] hist[i].op = "type"   -> [op |-> "typefinish", cfg |-> "", acfile |-> "", stamp |-> 0, w |-> hist[i].w]
                [] hist[i].op = "edit"   -> [op |-> "acwrite", cfg |-> "", acfile |-> hist[i].file, stamp |-> i, w |-> ""]
                [] hist[i].op = "corrupt" -> [op |-> "accorrupt", cfg |-> "", acfile |-> "", stamp |-> i, w |-> ""]
                [] hist[i].op = "gone"   -> [op |-> "acremove", cfg |-> "", acfile |-> "", stamp |-> i, w |-> ""]
                [] OTHER                 -> [op |-> "update", cfg |-> hist[i].cfg, acfile |-> "", stamp |-> 0, w |-> ""]]
Emit == (phase = "post" /\ TypesSinceUpd = 2 /\ Cardinality(Updates) = MaxUpdates) =>
           PrintT(<<"REPLAY", ToJson([mc |-> "MC_Update", steps |-> StepsA])>>)
=============================================================================
