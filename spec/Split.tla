-------------------------------- MODULE Split --------------------------------
(***************************************************************************)
(* Splitting of the typed text into preceding punctuation / word /         *)
(* trailing punctuation, smart-quote curling.                              *)
(*                                                                         *)
(* Texts are sequences of characters OR of class tokens (so that the same  *)
(* operators serve character-level trace validation and class-level model  *)
(* checking).  Class tokens: "L*" letter, "D*" digit, "N*" punctuation of  *)
(* the statement's set other than quotes, "Q*" straight quote, "C*" colon, *)
(* "B*" back-tick, "S*" any other symbol ($ ^ \).                          *)
(*                                                                         *)
(* NORMATIVE  PropSplit: for a word over letters and digits wrapped in     *)
(*            punctuation of the statement's set, the unique P.W.Q.        *)
(* DESCRIPTIVE ImplSplit: transcript of SplittedString::split (first       *)
(*            non-META scan, reverse scan with the escape flag).           *)
(***************************************************************************)
EXTENDS Naturals, Sequences

MetaChars == {"-", "]", "~", "!", "@", "#", "%", "&", "*", "(", ")", "_", "=", "+", "[", "{", "}", "'", "\"",
              ";", "<", ">", "/", "?", "|", ".", ","}
IsMeta(c)  == c \in MetaChars \/ c \in {"N*", "Q*"} \/ c = "।"
IsColon(c) == c \in {":", "C*"}
IsTick(c)  == c \in {"`", "B*"}
IsQuote(c) == c \in {"'", "\"", "Q*"}
AlnumChars == {"a","b","c","d","e","f","g","h","i","j","k","l","m","n","o","p","q","r","s","t","u","v","w","x","y","z",
               "A","B","C","D","E","F","G","H","I","J","K","L","M","N","O","P","Q","R","S","T","U","V","W","X","Y","Z",
               "0","1","2","3","4","5","6","7","8","9"}
IsAlnum(c) == c \in AlnumChars \/ c \in {"L*", "D*"}
\* punctuation of the statement of C03: the META set without the danda
IsPunct(c) == c \in MetaChars \/ c \in {"N*", "Q*"}

Parts(p, w, t) == [pre |-> p, word |-> w, trail |-> t]

(* ----- NORMATIVE ------------------------------------------------------- *)
\* Is text a (possibly empty) alphanumeric word wrapped in punctuation?
LeadLen(text)  == IF \E i \in 1..Len(text) : ~IsPunct(text[i])
                  THEN (CHOOSE i \in 1..Len(text) : ~IsPunct(text[i]) /\ \A j \in 1..(i - 1) : IsPunct(text[j])) - 1
                  ELSE Len(text)
TrailStart(text) == IF \E i \in 1..Len(text) : ~IsPunct(text[i])
                    THEN (CHOOSE i \in 1..Len(text) : ~IsPunct(text[i]) /\ \A j \in (i + 1)..Len(text) : IsPunct(text[j])) + 1
                    ELSE Len(text) + 1
IsWrappedWord(text) ==
    /\ \E i \in 1..Len(text) : IsAlnum(text[i])
    /\ \A i \in (LeadLen(text) + 1)..(TrailStart(text) - 1) : IsAlnum(text[i])
PropSplit(text) == Parts(SubSeq(text, 1, LeadLen(text)),
                         SubSeq(text, LeadLen(text) + 1, TrailStart(text) - 1),
                         SubSeq(text, TrailStart(text), Len(text)))

(* ----- DESCRIPTIVE ----------------------------------------------------- *)
RECURSIVE RevScan(_, _, _, _, _)
\* rest: the text from the first non-META character; i: current index (from the end); esc: escape flag;
\* lastIdx: 0-based index where the trailing part starts
RevScan(rest, i, esc, lastIdx, colon) ==
    IF i = 0 THEN lastIdx
    ELSE LET c == rest[i] IN
         IF ~esc /\ IsTick(c) THEN RevScan(rest, i - 1, TRUE, lastIdx, colon)
         ELSE IF ((colon \/ esc) /\ IsColon(c)) \/ IsMeta(c) THEN RevScan(rest, i - 1, FALSE, i - 1, colon)
         ELSE lastIdx

ImplSplit(text, colon) ==
    IF \A i \in 1..Len(text) : IsMeta(text[i]) THEN Parts(text, <<>>, <<>>)
    ELSE LET first == CHOOSE i \in 1..Len(text) : ~IsMeta(text[i]) /\ \A j \in 1..(i - 1) : IsMeta(text[j])
             rest  == SubSeq(text, first, Len(text))
             li    == RevScan(rest, Len(rest), FALSE, Len(rest), colon)
         IN Parts(SubSeq(text, 1, first - 1), SubSeq(rest, 1, li), SubSeq(rest, li + 1, Len(rest)))

(* ----- smart quotes (C17), NORMATIVE ------------------------------------ *)
Open(c)  == CASE c = "'" -> "‘" [] c = "\"" -> "“" [] c = "Q*" -> "oQ*" [] OTHER -> c
Close(c) == CASE c = "'" -> "’" [] c = "\"" -> "”" [] c = "Q*" -> "cQ*" [] OTHER -> c
Uncurl(c) == CASE c \in {"‘", "’"} -> "'" [] c \in {"“", "”"} -> "\"" [] c \in {"oQ*", "cQ*"} -> "Q*" [] OTHER -> c
SmartQuote(parts) ==
    IF parts.word = <<>> THEN parts
    ELSE Parts([i \in 1..Len(parts.pre) |-> Open(parts.pre[i])], parts.word,
               [i \in 1..Len(parts.trail) |-> Close(parts.trail[i])])
Join3(parts) == parts.pre \o parts.word \o parts.trail
=============================================================================
