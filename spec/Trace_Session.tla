---------------------------- MODULE Trace_Session ----------------------------
(***************************************************************************)
(* impl -> spec: long random in-contract histories of the real engine      *)
(* (all 111 key codes, any modifier, both methods, real dictionary),       *)
(* validated event by event.  The specification keeps its own view of the  *)
(* composition:                                                            *)
(*   phonetic  the typed characters - exact (key code -> character table   *)
(*             from riti.h via keycodes.json);                             *)
(*   fixed     the text last shown; with old vowel order off every key     *)
(*             must lead to a text FixedCompose!PropKeySet allows for the  *)
(*             value Layout!Expected assigns to the key (C04 + C12 + C13). *)
(* Checked at every event:                                                 *)
(*   C01  the call returned (no panic), within the time budget             *)
(*   C02  list non-empty, preselected index inside it (or the echoed byte, *)
(*        known finding F05), auxiliary text = the composition, readable   *)
(*   C06  flag rules; terminating events leave the context idle            *)
(*   the driver stayed inside the contract (commit index, update idle)     *)
(* Whole-system sessions (driver "shadow") carry more per event:           *)
(*   Shadow           the returned suggestion equals the one a brand-new   *)
(*                    context over the same configuration and user files   *)
(*                    gives for the surviving text - owed per C05 / C06 /  *)
(*                    C09 / C11 as the state of THIS specification says    *)
(*   FirstIsComposed  fixed list: first candidate = composed text          *)
(*   C16 facts        no emoji / raw text / Bengali code point in ANSI     *)
(*   filechg          only a possibly-learning commit changes the store    *)
(* $FOCUS selects whose conjuncts are enforced.                            *)
(***************************************************************************)
EXTENDS FixedCompose, Layout

Rec   == ndJsonDeserialize(IOEnv.TRACE)
Focus == IOEnv.FOCUS
LayoutChars == [probhat |-> JsonDeserialize(GenDir \o "/probhat_chars.json"),
                synth   |-> JsonDeserialize(GenDir \o "/synth_chars.json")]
PreserveChars == {".", "?", "!", ",", ":", ";", "-", "_", ")", "}", "]", "'", "\""}
Budget == 5000      \* ms per call

VARIABLES l, cfg, comp, lastLen, shown, ongoing,
          upd,      \* update-engine was called since the context was created
          ended,    \* a terminating event happened since the context was created
          wbs       \* fixed method: a backspace was used in the word being composed
vars == <<l, cfg, comp, lastLen, shown, ongoing, upd, ended, wbs>>

E == Rec[l]
Is(ev) == l <= Len(Rec) /\ E.ev = ev
Fail(msg) == PrintT(<<"TRACE-FAIL", l, msg>>) /\ FALSE
Require(cond, msg) == IF cond THEN TRUE ELSE Fail(msg)
\* Focus C11: the conjuncts that depend on the CONFIGURATION (C04 layout / number-pad gating, C12 helper rules, kind of
\* suggestion: OnKind) are enforced for every event after an update-engine call, against the configuration passed to it
\* ("option changes take effect at once, a changed layout switches method and layout")
\* Focus C04: with all composition helpers off the rules of C12 are plain appending (plus the unconditional ones), so the
\* text after a key is determined by the value the layout assigns to it - the C12 conjunct then decides C04 for keys
\* pressed INSIDE a word.
HelpersOff == cfg.method = "fixed" /\ ~cfg.o.vowel /\ ~cfg.o.chandra /\ ~cfg.o.kar /\ ~cfg.o.reph /\ ~cfg.o.karorder
On(f) == \/ Focus = f \/ Focus = "ALL"
         \/ (Focus = "C13" /\ f = "C12")      \* (the reph key is one of the keys; C13's option-off clause is plain appending)
         \/ (Focus = "C11" /\ upd /\ f \in {"C04", "C12"})
         \/ (Focus = "C04" /\ f = "C12" /\ HelpersOff)

\* the kind of suggestion (list-style vs. lonely) follows the suggestion option of the configuration in force
OnKind == On("C02") \/ (Focus = "C11" /\ upd)

NoCfg == [method |-> "none"]
Init == l = 1 /\ cfg = NoCfg /\ comp = <<>> /\ lastLen = 0 /\ shown = FALSE /\ ongoing = FALSE /\ upd = FALSE /\ ended = FALSE /\ wbs = FALSE

Phon == cfg.method = "phonetic"

\* the value the layout file assigns to the key, as characters (C04)
ValueOf(code, m) ==
    IF code \notin Published THEN <<>>
    ELSE LET k == ByCode[code]
             L == LayoutChars[cfg.layout]
             name == IF k.numpad THEN k.entry ELSE k.entry \o (IF AltGr(m) THEN "_AltGr" ELSE "_Normal")
         IN IF k.entry = "" \/ (k.numpad /\ ~cfg.numpad) \/ name \notin DOMAIN L THEN <<>> ELSE L[name]

\* common checks on a returned suggestion
Returned(text) ==
    /\ (On("C01") => Require(E.kind # "panic" /\ E.ms <= Budget, "C01: the call panicked or exceeded the time budget"))
    /\ E.kind # "panic"
    /\ (On("C02") =>
          \* (known finding F18: the third-party Bijoy encoder panics on U+09C4 and four unassigned neighbours)
          /\ Require(E.readable \/ (E.ku /\ PrintT(<<"TRACE-KNOWN", "F18", l>>)), "C02: a candidate / pre-edit text is not readable")
          /\ Require(E.kind = "full" => E.len >= 1, "C02: list-style suggestion without a candidate")
          /\ Require(E.kind = "full" => E.text = text, "C02: auxiliary text is not the composition"))
    /\ (On("C06") => Require((E.kind \in {"single", "full"} /\ E.pre0 # <<>>) => E.ongoing, "C06: non-empty pre-edit text but no ongoing session"))
    \* C16 inside whole sessions (the shadow driver logs the encoding facts; the configuration in force is the one of the last
    \* new / update event): ANSI on - no emoji, every pre-edit text the Bijoy encoding without a Bengali code point; off - identity
    /\ ((On("C16") /\ "anyemoji" \in DOMAIN E /\ "ansi" \in DOMAIN cfg /\ E.kind \in {"single", "full"}) =>
            IF cfg.ansi
            THEN /\ Require(~E.anyemoji, "C16: an emoji is offered in ANSI mode")
                 /\ Require(("rawoffered" \in DOMAIN E) => ~E.rawoffered, "C16: the raw typed (English) text is offered in ANSI mode")
                 /\ Require(~E.prebn /\ E.prebijoy, "C16: a pre-edit text in ANSI mode is not the pure Bijoy encoding of its candidate")
            ELSE Require(E.preeq, "C16: ANSI off, but a pre-edit text differs from its candidate"))

\* ----- the shadow: a brand-new context over the same configuration and user files, given the surviving text ------------
\* The recorder (driver "shadow") compares the rendering of the returned suggestion with the one a brand-new context returns
\* for the surviving text (phonetic: the characters of the composition; fixed: the keys of the word, as long as no backspace
\* was used in it) and logs fresh = "eq" | "diff" | "skip" (not sampled) | "na" (nothing to compare).  The comparison is owed
\*   C05  in the phonetic method at every event (history independence; warm caches);
\*   C06  after any terminating event of this context (it behaves from then on like a newly created one);
\*   C09  in the phonetic method (a context created over the same user-data directory preselects the same candidate);
\*   C11  after an update-engine call (the updated context behaves like one created with that configuration).
Fresh == IF "fresh" \in DOMAIN E THEN E.fresh ELSE "skip"
ShadowOn == \/ Focus = "ALL"
            \/ (Focus \in {"C05", "C09", "C03", "C07", "C08"} /\ Phon)     \* (C03: what holds for the lists of a brand-new context - MC_Split - holds for equal lists)
            \/ (Focus = "C06" /\ ended)
            \/ Focus = "C18"      \* (what the table walk establishes for brand-new contexts holds for equal lists of used ones)
            \/ (Focus = "C15" /\ ~Phon)   \* (likewise what the prefix corpus establishes for the fixed-layout lists)
            \/ (Focus = "C11" /\ upd)
\* comparable: the specification's own view (a recorder that answers "na" where a comparison is possible is rejected)
Shadow(comparable, c2) ==
    ShadowOn =>
        /\ Require(Fresh # "diff", "C05/C06/C09/C11: the suggestion differs from the one a brand-new context gives for the surviving text")
        /\ Require((Fresh = "na" /\ E.kind \in {"single", "full"}) => ~comparable, "the recorder skipped a comparison that was possible")

\* fixed method, list-style suggestion: the first candidate IS the composed text (modulo the curling of wrapping quotes; the
\* recorder logs it with curly quotes mapped back) - what a front-end commits when the user just goes on typing (C15, and the
\* visible side of C12 / C13 when suggestions are on)
FirstIsComposed ==
    ((On("C12") \/ On("C15") \/ On("C02")) /\ ~Phon /\ E.kind = "full" /\ "c0u" \in DOMAIN E) =>
        Require(E.c0u = E.text, "C12/C13/C15: the first candidate of the fixed-layout list is not the composed text")

SetLast == /\ lastLen' = (IF E.kind = "full" THEN E.len ELSE IF E.kind = "single" THEN 1 ELSE 0)
           /\ shown' = (E.kind \in {"single", "full"} /\ lastLen' > 0)
           /\ ongoing' = E.ongoing

New == /\ Is("new") /\ cfg' = E.cfg /\ comp' = <<>> /\ lastLen' = 0 /\ shown' = FALSE /\ ongoing' = FALSE /\ upd' = FALSE
       /\ ended' = FALSE /\ wbs' = FALSE /\ l' = l + 1

Key ==
    /\ Is("key") /\ cfg # NoCfg
    /\ Require(E.code \in Published /\ (E.sel = 0 \/ E.sel < lastLen), "driver left the contract: key code / selection byte")
    /\ IF Phon
       THEN LET ch == ByCode[E.code].ch
                c2 == IF ch = "" THEN comp ELSE Append(comp, ch)
            IN /\ comp' = c2
               /\ Returned(c2)
               /\ (OnKind => Require((cfg.sug /\ c2 # <<>>) => (E.kind = "full" /\ (E.rsel < E.len \/ (ch \in PreserveChars /\ E.rsel = E.sel))),
                                        "C02: phonetic list expected, preselected index inside it (or the echoed byte, F05)"))
               /\ (OnKind => Require(~cfg.sug => E.kind # "full", "C02/C11: suggestions are off but a list-style suggestion was returned"))
               /\ (On("C06") => Require(E.ongoing = (c2 # <<>>), "C06: session flag does not match the typed characters"))
               /\ Shadow(c2 # <<>>, c2)
               /\ wbs' = wbs
       ELSE LET val == ValueOf(E.code, E.mod) IN
            IF val = <<>>
            THEN \* a key without assignment changes nothing
                 /\ comp' = comp
                 /\ Returned(comp)
                 /\ (On("C04") => Require(E.shown = comp /\ E.ongoing = ongoing, "C04: a key without assignment changed the composition"))
                 /\ Shadow(~wbs, comp)
                 /\ wbs' = wbs
            ELSE /\ comp' = E.shown
                 /\ Returned(E.shown)
                 /\ (On("C12") => Require((~cfg.o.karorder /\ NormativeKey(comp, val)) => E.shown \in PropKeySet(comp, val, cfg.o),
                                          "C04/C12/C13: the composed text is not one the layout value and the composition rules allow for this key"))
                 /\ (OnKind => Require(cfg.sug => (E.kind = "full" /\ E.rsel < E.len), "C02: fixed list expected, preselected index inside it"))
                 /\ FirstIsComposed
                 /\ (OnKind => Require(~cfg.sug => E.kind # "full", "C02/C11: suggestions are off but a list-style suggestion was returned"))
                 /\ (On("C06") => Require(IF cfg.o.karorder THEN (E.shown # <<>> => E.ongoing) ELSE E.ongoing = (E.shown # <<>>),
                                          "C06: session flag does not match the composed text"))
                 /\ Shadow(~wbs, comp)
                 /\ wbs' = wbs
    /\ SetLast /\ UNCHANGED <<cfg, upd, ended>> /\ l' = l + 1

Backspace ==
    /\ Is("bs") /\ cfg # NoCfg
    /\ LET expected == IF E.ctrl THEN <<>> ELSE Front(comp)
           exact    == Phon \/ ~cfg.o.karorder
       IN /\ comp' = (IF E.kind = "empty" THEN <<>> ELSE IF exact THEN expected ELSE E.shown)
          /\ Returned(IF exact THEN expected ELSE E.shown)
          /\ (On("C06") =>
                /\ Require(~ongoing => (E.kind = "empty" /\ ~E.ongoing), "C06: backspace when idle must return an empty suggestion and start nothing")
                /\ Require(E.kind = "empty" => ~E.ongoing, "C06: a backspace returned an empty suggestion but the session is still ongoing")
                /\ Require((E.ctrl /\ ongoing) => (E.kind = "empty" /\ ~E.ongoing), "C06: ctrl-backspace must end the session"))
          /\ (On("C12") => Require((exact /\ ~Phon /\ E.kind # "empty") => E.shown = expected, "C12: backspace must remove exactly the last code point"))
          /\ FirstIsComposed
          /\ Shadow(Phon, expected)
          \* a backspace that returns an empty suggestion, and ctrl-backspace on an ongoing session, are terminating events
          /\ ended' = (ended \/ (E.kind = "empty" /\ ongoing))
          /\ wbs' = (~Phon /\ E.kind # "empty")
    /\ SetLast /\ UNCHANGED <<cfg, upd>> /\ l' = l + 1

Commit ==
    /\ Is("commit")
    /\ Require(shown /\ E.idx < lastLen, "driver left the contract: commit index")
    /\ (On("C01") => Require(E.panic = "", "C01: commit panicked"))
    /\ E.panic = ""
    /\ (On("C06") => Require(~E.ongoing, "C06: still ongoing after a commit"))
    \* "committing the preselected candidate changes nothing" / nothing of a word leaks into the learned choices: only a commit
    \* that can be a learning one (list-style suggestion, another index than the computed one) may change the store file
    /\ ((Focus \in {"C06", "C09", "ALL"} /\ "filechg" \in DOMAIN E) =>
            Require(E.filechg => E.learnable, "C06/C09: a commit that cannot have been a learning one changed the learned-selection file"))
    /\ comp' = <<>> /\ lastLen' = 0 /\ shown' = FALSE /\ ongoing' = E.ongoing /\ ended' = TRUE /\ wbs' = FALSE /\ UNCHANGED <<cfg, upd>> /\ l' = l + 1

Finish ==
    /\ Is("finish")
    /\ (On("C01") => Require(E.panic = "", "C01: finish panicked"))
    /\ E.panic = ""
    /\ (On("C06") => Require(~E.ongoing, "C06: still ongoing after finish"))
    /\ comp' = <<>> /\ lastLen' = 0 /\ shown' = FALSE /\ ongoing' = E.ongoing /\ ended' = TRUE /\ wbs' = FALSE /\ UNCHANGED <<cfg, upd>> /\ l' = l + 1

Update ==
    /\ Is("update")
    /\ Require(~ongoing /\ comp = <<>>, "driver left the contract: update-engine while a session is ongoing")
    /\ (On("C01") => Require(E.panic = "", "C01: update-engine panicked"))
    /\ E.panic = ""
    /\ cfg' = E.cfg /\ comp' = <<>> /\ lastLen' = 0 /\ shown' = FALSE /\ ongoing' = E.ongoing /\ upd' = TRUE /\ wbs' = FALSE /\ UNCHANGED ended /\ l' = l + 1

\* appended by the recorder's watchdog / signal handler: an engine call hung, or the code under test killed the process
Panic == Is("panic") /\ Fail("an engine call did not return, or the process was killed by a fatal signal") /\ UNCHANGED vars

Next == New \/ Key \/ Backspace \/ Commit \/ Finish \/ Update \/ Panic
Spec == Init /\ [][Next]_vars

Accepted ==
    LET consumed == TLCGet("stats").diameter - 1 IN
    /\ PrintT(<<"TRACE-RESULT", consumed, Len(Rec)>>)
    /\ consumed = Len(Rec)
=============================================================================
