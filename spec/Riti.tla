-------------------------------- MODULE Riti --------------------------------
(***************************************************************************)
(* The context as a state machine: one RitiContext with its method object. *)
(*                                                                         *)
(* Events (= the public API = the C ABI, one to one):                      *)
(*   Key(k, s)        a key press with selection byte s                    *)
(*   Backspace(ctrl)                                                       *)
(*   Commit(i)        in contract only while a suggestion is shown, i<len  *)
(*   Finish                                                                *)
(*   Update(c)        in contract only while idle                          *)
(*                                                                         *)
(* DESCRIPTIVE layer (Impl-operators): transcript of src/context.rs,                *)
(* src/phonetic/method.rs and src/fixed/method.rs (session part; the       *)
(* composition itself is FixedCompose!ImplKey).  Candidate lists are       *)
(* abstract: only their length, preselected index and whether the raw      *)
(* typed text is offered are modelled; lengths are chosen                  *)
(* nondeterministically (any list the data could produce).                 *)
(*                                                                         *)
(* NORMATIVE layer (Prop-operators): C01 (every in-contract event has an outcome),  *)
(* C02 (well-formed suggestions), C06 (terminating events leave a fresh    *)
(* context; the session flag tells the truth).                             *)
(***************************************************************************)
EXTENDS FixedCompose, TLC

CONSTANTS MaxLen        \* longest abstract candidate list

(* ----- abstract keys --------------------------------------------------- *)
\* A key is a record [val : Seq(Char), ch : STRING]:
\*   val  the layout value (fixed method; <<>> = key without assignment)
\*   ch   the ASCII character of the key code ("" for keypad Enter/Equals)
\* Phonetic keys only use ch; fixed keys use both.
PreserveChars == {".", "?", "!", ",", ":", ";", "-", "_", ")", "}", "]", "'", "\""}

(* ----- configuration ---------------------------------------------------- *)
\* cfg : [method : {"phonetic","fixed"}, layout : STRING, sug, english, ansi : BOOLEAN, o : helper options]
English(c) == c.english /\ ~c.ansi                 \* the English option is masked by ANSI

(* ----- state ------------------------------------------------------------ *)
\* ph : [buf : Seq(ch), prevsel : Nat]                               phonetic method object
\* fx : [buf, pend, crash, typed : Seq(key), list : Nat]             fixed method object (list = length of the
\*                                                                   candidate vector kept from the last search)
\* last : [kind : {"none","empty","single","full"}, len, sel : Nat, shown : BOOLEAN]
FreshPh == [buf |-> <<>>, prevsel |-> 0]
FreshFx == [buf |-> <<>>, pend |-> "none", crash |-> FALSE, typed |-> <<>>, list |-> 0]
\*        echo = the preselected index is the caller's selection byte, echoed back (punctuation keys)
NoSug   == [kind |-> "none", len |-> 0, sel |-> 0, shown |-> FALSE, echo |-> FALSE]
Empty   == [kind |-> "empty", len |-> 0, sel |-> 0, shown |-> FALSE, echo |-> FALSE]
Single(nonempty) == [kind |-> IF nonempty THEN "single" ELSE "empty", len |-> IF nonempty THEN 1 ELSE 0,
                     sel |-> 0, shown |-> nonempty, echo |-> FALSE]
Full(n, sel)     == [kind |-> "full", len |-> n, sel |-> sel, shown |-> n > 0, echo |-> FALSE]

VARIABLES cfg, ph, fx, last, crashed
svars == <<cfg, ph, fx, last, crashed>>

Phon == cfg.method = "phonetic"

\* Is the context idle (no ongoing input session)?  -- ongoing_input_session()
ImplOngoingCtx == IF Phon THEN ph.buf # <<>> ELSE (fx.buf # <<>> \/ fx.pend # "none")

-----------------------------------------------------------------------------
(* ----- phonetic method (src/phonetic/method.rs) ------------------------ *)

\* create_suggestion: list-style when suggestions are on, else the lonely transliteration.
\* n = abstract list length (>= 1: the transliteration is always appended), p = position of the learned
\* candidate in it (or 0).  translitEmpty: the transliteration of the buffer is the empty string.
PhCreate(buf, n, p, translitEmpty) ==
    IF cfg.sug THEN Full(n, p) ELSE Single(~translitEmpty)

PhKey(k, s, n, p, te) ==
    /\ Phon
    /\ IF k.ch = "" THEN        \* a key without a character changes nothing (fix F04)
            /\ crashed' = crashed /\ ph' = [ph EXCEPT !.prevsel = IF cfg.sug /\ ph.buf # <<>> THEN p ELSE @]
            /\ last' = IF ph.buf = <<>> THEN Empty ELSE PhCreate(ph.buf, n, p, te)
       ELSE /\ crashed' = crashed
            /\ ph' = [buf |-> Append(ph.buf, k.ch), prevsel |-> IF cfg.sug THEN p ELSE ph.prevsel]
            /\ LET r == PhCreate(ph'.buf, n, p, te) IN
               \* punctuation overwrites the computed selection with the caller's, UNCHECKED against the new
               \* list: known finding F05 (the repair contradicts the pinned test test_preserve_selection)
               last' = IF r.kind = "full" /\ k.ch \in PreserveChars THEN [Full(n, s) EXCEPT !.echo = TRUE] ELSE r
    /\ UNCHANGED <<cfg, fx>>

PhBackspace(ctrl, n, p, te) ==
    /\ Phon
    /\ IF ph.buf = <<>> THEN ph' = ph /\ last' = Empty
       ELSE IF ctrl \/ Len(ph.buf) = 1 THEN ph' = [ph EXCEPT !.buf = <<>>] /\ last' = Empty
       ELSE LET r == PhCreate(Front(ph.buf), n, p, te) IN
            \* an empty suggestion from a backspace ends the session (fix F07)
            /\ ph' = [buf |-> IF r.kind = "empty" THEN <<>> ELSE Front(ph.buf), prevsel |-> IF cfg.sug THEN p ELSE ph.prevsel]
            /\ last' = r
    /\ UNCHANGED <<cfg, fx, crashed>>

PhCommit(i) ==
    /\ Phon
    /\ ph' = [ph EXCEPT !.buf = <<>>]              \* (learning: Store.tla)
    /\ last' = NoSug
    /\ UNCHANGED <<cfg, fx, crashed>>

PhFinish ==
    /\ Phon /\ ph' = [ph EXCEPT !.buf = <<>>] /\ last' = NoSug /\ UNCHANGED <<cfg, fx, crashed>>

-----------------------------------------------------------------------------
(* ----- fixed method (src/fixed/method.rs) ------------------------------- *)

\* create_suggestion / create_dictionary_suggestion: the typed word is always first, so n >= 1
FxCreate(f, n) ==
    IF cfg.sug THEN Full(n, 0) ELSE Single(f.buf # <<>>)

\* current_suggestion (a key without assignment)
FxCurrent ==
    IF fx.buf # <<>> THEN (IF cfg.sug THEN Full(fx.list, 0) ELSE Single(TRUE)) ELSE Empty

FxKey(k, n) ==
    /\ ~Phon
    /\ IF k.val = <<>> THEN fx' = fx /\ last' = FxCurrent
       ELSE LET c  == ImplKey([buf |-> fx.buf, pend |-> fx.pend, crash |-> FALSE], k.val, cfg.o)
                f2 == [buf |-> c.buf, pend |-> c.pend, crash |-> c.crash,
                       typed |-> IF cfg.sug THEN Append(fx.typed, k) ELSE fx.typed,
                       list |-> IF cfg.sug THEN n ELSE fx.list]
            IN fx' = f2 /\ last' = FxCreate(f2, n)
    /\ crashed' = (crashed \/ fx'.crash)
    /\ UNCHANGED <<cfg, ph>>

\* backspace_event: all three pieces of state are cleared whenever the word ends (fix F06: `typed` too)
FxBackspace(ctrl, n) ==
    /\ ~Phon
    /\ IF ctrl /\ fx.buf # <<>> THEN fx' = FreshFx /\ last' = Empty
       ELSE IF fx.pend # "none" THEN
            IF fx.buf = <<>> THEN fx' = [FreshFx EXCEPT !.list = fx.list] /\ last' = Empty
            ELSE /\ fx' = [fx EXCEPT !.pend = "none", !.typed = Front(fx.typed), !.list = IF cfg.sug THEN n ELSE @]
                 /\ last' = FxCreate(fx', n)
       ELSE IF fx.buf # <<>> THEN
            IF Len(fx.buf) = 1 THEN fx' = [FreshFx EXCEPT !.list = fx.list] /\ last' = Empty
            ELSE /\ fx' = [fx EXCEPT !.buf = Front(fx.buf), !.typed = Front(fx.typed), !.list = IF cfg.sug THEN n ELSE @]
                 /\ last' = FxCreate(fx', n)
       ELSE fx' = fx /\ last' = Empty
    /\ UNCHANGED <<cfg, ph, crashed>>

FxCommit(i) == ~Phon /\ fx' = FreshFx /\ last' = NoSug /\ UNCHANGED <<cfg, ph, crashed>>
FxFinish    == ~Phon /\ fx' = FreshFx /\ last' = NoSug /\ UNCHANGED <<cfg, ph, crashed>>

-----------------------------------------------------------------------------
(* ----- context (src/context.rs) ----------------------------------------- *)

CtxIdle == ~ImplOngoingCtx

New(c) == cfg = c /\ ph = FreshPh /\ fx = FreshFx /\ last = NoSug /\ crashed = FALSE

\* update_engine: a changed layout replaces the method object, otherwise the method is told to refresh
Update(c) ==
    /\ CtxIdle                                     \* in contract only while idle
    /\ cfg' = c
    /\ IF c.layout # cfg.layout THEN ph' = FreshPh /\ fx' = FreshFx
                                ELSE ph' = ph /\ fx' = fx
    /\ last' = NoSug
    /\ UNCHANGED crashed

\* the events, with the nondeterministic data-dependent parameters drawn inside each disjunct
Key(k, s) ==
    \/ \E n \in 1..MaxLen, p \in 0..(MaxLen - 1), te \in BOOLEAN : p < n /\ PhKey(k, s, n, p, te)
    \/ \E n \in 1..MaxLen : FxKey(k, n)
Backspace(ctrl) ==
    \/ \E n \in 1..MaxLen, p \in 0..(MaxLen - 1), te \in BOOLEAN : p < n /\ PhBackspace(ctrl, n, p, te)
    \/ \E n \in 1..MaxLen : FxBackspace(ctrl, n)
Commit(i) == last.shown /\ i < last.len /\ (PhCommit(i) \/ FxCommit(i))
Finish    == PhFinish \/ FxFinish

-----------------------------------------------------------------------------
(* ----- NORMATIVE ------------------------------------------------------- *)

\* C01: no in-contract event crashes (on the transcript: the crash marker is never set)
PropNoCrash == ~crashed

\* C02: a list-style suggestion holds a candidate and its preselected index is inside it.
\* (The selection byte passed by the caller is constrained by the *event guard* of the model-checking
\* instance: s < last.len, or 0.)
PropWellFormedStrict == last.kind = "full" => (last.len >= 1 /\ last.sel < last.len)
\* ... modulo known finding F05: on a punctuation key the caller's byte is echoed without re-validation
PropWellFormed == last.kind = "full" => (last.len >= 1 /\ (last.sel < last.len \/ last.echo))

\* C06: the context state right after a terminating event, or whenever it reports "no ongoing session",
\* is the state of a newly created context (same configuration): nothing of the old word survives.
PropFreshWhenIdle ==
    CtxIdle => /\ (Phon => ph.buf = <<>>)
            /\ (~Phon => fx.buf = <<>> /\ fx.pend = "none" /\ fx.typed = <<>>)   \* (fx.list is dead state: it is
                                                                                  \* only read while fx.buf # <<>>)
\* a shown, non-empty suggestion implies an ongoing session
PropShownImpliesOngoing == (last.shown /\ last.kind # "full") => ImplOngoingCtx
\* an empty suggestion returned by a backspace means the session is over
PropEmptyAfterBackspaceIsIdle(wasBackspace) == (wasBackspace /\ last.kind = "empty") => CtxIdle
=============================================================================
