#!/usr/bin/env python3
"""Replace decomposed ড়/ঢ়/য় (base + nukta) by the precomposed letters U+09DC/U+09DD/U+09DF in the given
files, and report any non-ASCII TLA+ string literal in *.tla files that is not a single code point
(texts are sequences of one-code-point strings in the specification)."""
import re, sys
REPL = {"\u09a1\u09bc": "\u09dc", "\u09a2\u09bc": "\u09dd", "\u09af\u09bc": "\u09df"}
bad = 0
for p in sys.argv[1:]:
    s = open(p, encoding="utf-8").read()
    t = s
    for a, b in REPL.items():
        t = t.replace(a, b)
    if t != s:
        open(p, "w", encoding="utf-8").write(t)
        print("fixed", p)
    if p.endswith(".tla"):
        for n, line in enumerate(t.split("\n"), 1):
            if line.lstrip().startswith("\\*") or line.lstrip().startswith("(*"):
                continue
            code = line.split("\\*")[0]
            for m in re.finditer(r'"((?:[^"\\]|\\.)*)"', code):
                lit = m.group(1).replace("\\\\", "\\").replace('\\"', '"')
                if len(lit) != 1 and any(ord(c) > 127 for c in lit):
                    print("%s:%d: multi-code-point literal %r %s" % (p, n, lit, [hex(ord(c)) for c in lit]))
                    bad += 1
sys.exit(1 if bad else 0)
