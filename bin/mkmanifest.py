#!/usr/bin/env python3
"""Writes MANIFEST.json from the table in bin/manifest_table.py (one source of truth for the registered checks)."""
import json, os, sys
VERIF = os.path.dirname(os.path.dirname(os.path.abspath(__file__)))
sys.path.insert(0, os.path.join(VERIF, "bin"))
from manifest_table import CHECKS, NOT_APPLICABLE, HOOKS, NOTES

props = [json.loads(l)["id"] for l in open(os.path.join(VERIF, "properties.jsonl"), encoding="utf-8")]
checks = []
for pid in props:
    if pid not in CHECKS:
        continue
    c = CHECKS[pid]
    checks.append({
        "property_id": pid,
        "quick_cmd": "bin/check %s --tier quick" % pid,
        "thorough_cmd": "bin/check %s --tier thorough" % pid,
        "evidence_file": "/verif/evidence/%s.json" % pid,
        "replay_cmd_template": "bin/check %s --replay {path}" % pid,
        "engine": "tla-riti",
        "level_claimed": {"category": c["category"], "text": c["text"], "design_ref": c["design_ref"]},
        "level_note": c["note"],
        "technique": c["technique"],
    })
na = [{"property_id": p, "reason": NOT_APPLICABLE.get(p, "check not built yet in this round")} for p in props if p not in CHECKS]
m = {
    "version": 1,
    "setup_cmd": "bin/setup",
    "hooks": HOOKS,
    "engines": [{"name": "tla-riti", "path": "/verif/bin/check",
                 "serves_properties": [c["property_id"] for c in checks],
                 "kind_free_text": "explicit TLA+ specification (spec/*.tla) model-checked with TLC; bound to the code by replay of TLC-generated behaviours through the real engine and by TLC trace validation of recorded runs (harness/)"}],
    "checks": checks,
    "notes": NOTES,
    "not_applicable": na,
}
json.dump(m, open(os.path.join(VERIF, "MANIFEST.json"), "w"), indent=1, ensure_ascii=False)
print("MANIFEST.json: %d checks, %d not claimed" % (len(checks), len(na)))
