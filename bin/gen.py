#!/usr/bin/env python3
"""Generate, from /repo's *current working tree*, the data files both TLC and the harness read:

  work/gen/keycodes.json   the 111 published VC_* codes parsed from include/riti.h, joined with the
                           (independently transcribed) name -> ASCII character / layout-entry table
  work/gen/probhat.json    the "layout" object of data/Probhat.json (what TLC reads with JsonDeserialize)
  work/gen/synth.json      a synthetic layout file (full file, with "info"/"layout") derived from Probhat:
                           multi-codepoint values (reph, ro-fola, zo-fola, conjunct), an empty entry,
                           a missing entry, empty / missing number-pad entries
  work/gen/synth_layout.json   its "layout" object only (for TLC)

The name table below is transcribed from the *names* in riti.h (VC_PAREN_LEFT is "(" and the layout entry
"Key_ParenLeft_*"), never from riti's Rust tables; the numeric codes are parsed at check time.
"""
import json, os, re, sys

REPO = os.environ.get("RITI_REPO", "/repo")
VERIF = os.path.dirname(os.path.dirname(os.path.abspath(__file__)))
OUT = os.path.join(VERIF, "work", "gen")

SYMS = {
    "GRAVE": ("`", "Grave"), "TILDE": ("~", "Tilde"), "EXCLAIM": ("!", "Exclaim"), "AT": ("@", "At"),
    "HASH": ("#", "Hash"), "DOLLAR": ("$", "Dollar"), "PERCENT": ("%", "Percent"), "CIRCUM": ("^", "Circum"),
    "AMPERSAND": ("&", "Ampersand"), "ASTERISK": ("*", "Asterisk"), "PAREN_LEFT": ("(", "ParenLeft"),
    "PAREN_RIGHT": (")", "ParenRight"), "UNDERSCORE": ("_", "UnderScore"), "PLUS": ("+", "Plus"),
    "MINUS": ("-", "Minus"), "EQUALS": ("=", "Equals"), "BRACKET_LEFT": ("[", "BracketLeft"),
    "BRACKET_RIGHT": ("]", "BracketRight"), "BACK_SLASH": ("\\", "BackSlash"), "BRACE_LEFT": ("{", "BraceLeft"),
    "BRACE_RIGHT": ("}", "BraceRight"), "BAR": ("|", "Bar"), "SEMICOLON": (";", "Semicolon"),
    "APOSTROPHE": ("'", "Apostrophe"), "COMMA": (",", "Comma"), "PERIOD": (".", "Period"), "SLASH": ("/", "Slash"),
    "COLON": (":", "Colon"), "QUOTE": ('"', "Quote"), "LESS": ("<", "Less"), "GREATER": (">", "Greater"),
    "QUESTION": ("?", "Question"),
}
KP = {"DIVIDE": ("/", "NumDivide"), "MULTIPLY": ("*", "NumMultiply"), "SUBTRACT": ("-", "NumSubtract"),
      "ADD": ("+", "NumAdd"), "DECIMAL": (".", "NumDecimal"), "EQUALS": ("", ""), "ENTER": ("", "")}


def put(path, obj, **kw):
    """Write JSON atomically, and only when the content changes: checks may run concurrently and read these files while
    another check regenerates them."""
    text = json.dumps(obj, **kw)
    try:
        if open(path, encoding="utf-8").read() == text:
            return
    except OSError:
        pass
    tmp = "%s.tmp.%d" % (path, os.getpid())
    with open(tmp, "w", encoding="utf-8") as f:
        f.write(text)
    os.replace(tmp, path)


def describe(name):
    """VC_* name -> (ascii char or '', layout entry prefix or '', numpad?)"""
    n = name[3:]
    if n.startswith("KP_"):
        k = n[3:]
        if k.isdigit():
            return k, "Num" + k, True
        ch, ent = KP[k]
        return ch, ent, True
    if re.fullmatch(r"[A-Z]", n):
        return n.lower(), "Key_" + n.lower(), False
    m = re.fullmatch(r"([A-Z])_SHIFT", n)
    if m:
        return m.group(1), "Key_" + m.group(1), False
    if n.isdigit():
        return n, "Key_" + n, False
    ch, ent = SYMS[n]
    return ch, "Key_" + ent, False


def main():
    os.makedirs(OUT, exist_ok=True)
    hdr = open(os.path.join(REPO, "include", "riti.h"), encoding="utf-8").read()
    codes = []
    for m in re.finditer(r"^#define (VC_[A-Z0-9_]+) (\d+)\s*$", hdr, re.M):
        name, code = m.group(1), int(m.group(2))
        ch, ent, numpad = describe(name)
        codes.append({"name": name, "code": code, "ch": ch, "entry": ent, "numpad": numpad})
    if len(codes) != 111:
        print("gen: expected 111 VC_* codes in riti.h, found %d" % len(codes), file=sys.stderr)
        sys.exit(2)
    put(os.path.join(OUT, "keycodes.json"), codes, ensure_ascii=False, indent=0)

    prob = json.load(open(os.path.join(REPO, "data", "Probhat.json"), encoding="utf-8"))
    put(os.path.join(OUT, "probhat_layout.json"), prob["layout"], ensure_ascii=False)

    lay = dict(prob["layout"])
    lay["Key_r_AltGr"] = "র্"          # reph
    lay["Key_R_AltGr"] = "্র"          # ro-fola
    lay["Key_Z_AltGr"] = "্য"          # zo-fola
    lay["Key_k_AltGr"] = "ক্ষ"    # conjunct kkha as one key
    lay["Key_q_AltGr"] = ""                      # empty assignment
    lay.pop("Key_w_AltGr", None)                 # missing assignment
    # an ASCII full stop (Probhat's own '.' key emits a danda) - on a key whose bundled value ("E") many other keys carry too:
    # every value of the bundled layout stays typeable in the synthetic one (Key_Period_AltGr is the only key for the nukta sign)
    lay["Key_B_AltGr"] = "."
    # the punctuation characters of the statement's classes that Probhat has no key for (C12 class sweep)
    for key, ch in zip("bcefgijlmn", "`$\\|><[]{}"):
        lay["Key_%s_AltGr" % key] = ch
    lay["Num5"] = ""                             # empty number-pad assignment
    lay.pop("Num6", None)                        # missing number-pad assignment
    synth = {"info": prob.get("info", {}), "layout": lay}
    put(os.path.join(OUT, "synth.json"), synth, ensure_ascii=False)
    put(os.path.join(OUT, "synth_layout.json"), lay, ensure_ascii=False)
    # a second layout file with the SAME FILE NAME as the bundled one, in another directory, that differs on plain letter keys
    # (C11: "a changed layout switches layout" - also when only the directory differs)
    alt = dict(prob["layout"])
    for x, y in (("a", "s"), ("n", "m"), ("o", "e"), ("k", "h")):
        kx, ky = "Key_%s_Normal" % x, "Key_%s_Normal" % y
        alt[kx], alt[ky] = prob["layout"][ky], prob["layout"][kx]
    os.makedirs(os.path.join(OUT, "alt"), exist_ok=True)
    put(os.path.join(OUT, "alt", "Probhat.json"), {"info": prob.get("info", {}), "layout": alt}, ensure_ascii=False)
    # another VALID database directory: a dictionary of a few words, the bundled suffix table, no auto-correct entries
    # (C05: a second context over other data files must not decide what the first one loads)
    os.makedirs(os.path.join(OUT, "altdb"), exist_ok=True)
    put(os.path.join(OUT, "altdb", "dictionary.json"), {"a": ["আমার"], "k": ["কথা"], "s": ["শেষ"]}, ensure_ascii=False)
    put(os.path.join(OUT, "altdb", "suffix.json"), json.load(open(os.path.join(REPO, "data", "suffix.json"), encoding="utf-8")), ensure_ascii=False)
    put(os.path.join(OUT, "altdb", "autocorrect.json"), {}, ensure_ascii=False)
    # layouts as character sequences (TLA+ cannot take a string apart): {entry: [chars]}
    for name, l in (("probhat", prob["layout"]), ("synth", lay)):
        put(os.path.join(OUT, name + "_chars.json"), {k: list(v) for k, v in l.items()}, ensure_ascii=False)
    # suffix table as character sequences (TLA+ cannot take a string apart): [{"key":[..],"val":[..]}]
    suf = json.load(open(os.path.join(REPO, "data", "suffix.json"), encoding="utf-8"))
    put(os.path.join(OUT, "suffix_chars.json"), [{"key": list(k), "val": list(v)} for k, v in sorted(suf.items())], ensure_ascii=False)
    print("gen: ok (%d key codes)" % len(codes))


if __name__ == "__main__":
    main()
