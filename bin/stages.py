"""Orchestration shared by all property checks (see bin/check)."""
import fcntl, glob, json, os, re, shutil, subprocess, sys, time

VERIF = os.path.dirname(os.path.dirname(os.path.abspath(__file__)))
REPO = os.environ.get("RITI_REPO", "/repo")
SPEC = os.path.join(VERIF, "spec")
WORK = os.path.join(VERIF, "work")
RV = os.path.join(VERIF, "harness", "target", "release", "rv")
JAVA_OPTS = ("-Dfile.encoding=UTF-8 -Dstdout.encoding=UTF-8 -Xss1g "
             "-Dtlc2.tool.queue.IStateQueue=StateDeque")
NCPU = os.cpu_count() or 4


class ToolError(Exception):
    pass


def log(*a):
    print(*a, flush=True)


# --------------------------------------------------------------------------------------------
# preparation: generated data + harness build (serialised across concurrent checks)

def prepare():
    os.makedirs(WORK, exist_ok=True)
    with open(os.path.join(WORK, "build.lock"), "w") as lk:
        fcntl.flock(lk, fcntl.LOCK_EX)
        # scratch directories of runs that ended long ago (disk space is limited)
        now = time.time()
        for d in glob.glob(os.path.join(WORK, "run-*")) + glob.glob(os.path.join(WORK, "tmp", "*")):
            try:
                if now - os.path.getmtime(d) > 6 * 3600:
                    shutil.rmtree(d, ignore_errors=True)
            except OSError:
                pass
        r = subprocess.run([sys.executable, os.path.join(VERIF, "bin", "gen.py")], capture_output=True, text=True)
        if r.returncode != 0:
            raise ToolError("gen.py failed: " + r.stdout + r.stderr)
        env = dict(os.environ, CARGO_NET_OFFLINE="true")
        # the harness depends on the repository by path: /repo for every registered check; a background exploration
        # (vp run --with-repo) may point RITI_REPO at a snapshot of the repository instead
        tmpl = open(os.path.join(VERIF, "harness", "Cargo.toml.in")).read().replace("@REPO@", REPO)
        ct = os.path.join(VERIF, "harness", "Cargo.toml")
        if not os.path.exists(ct) or open(ct).read() != tmpl:
            open(ct, "w").write(tmpl)
        r = subprocess.run(["cargo", "build", "--release", "--offline"], cwd=os.path.join(VERIF, "harness"),
                           capture_output=True, text=True, env=env)
        if r.returncode != 0:
            # /repo does not compile (or the harness does not compile against it): tool error, not a verdict
            raise ToolError("cargo build of the harness against %s failed:\n%s" % (REPO, r.stderr[-4000:]))
        # tables of the dependencies that a specification enumerates (written only when the content changes)
        r = subprocess.run([RV, "dump-tables", "--out", os.path.join(WORK, "gen", "emoticon_quotes.json")], capture_output=True, text=True, env=rv_env())
        if r.returncode != 0 or "RV-DUMPED" not in r.stdout:
            raise ToolError("rv dump-tables failed: " + (r.stdout + r.stderr)[-1000:])


# --------------------------------------------------------------------------------------------
# TLC

def tlc_env():
    env = dict(os.environ)
    env["JAVA_TOOL_OPTIONS"] = JAVA_OPTS
    env["VERIF_GEN"] = os.path.join(WORK, "gen")
    return env


def write_cfg(path, spec=None, init=None, nxt=None, constants=None, invariants=(), constraints=(),
              postcondition=None, view=None, props=()):
    lines = []
    if spec:
        lines.append("SPECIFICATION %s" % spec)
    if init:
        lines.append("INIT %s" % init)
    if nxt:
        lines.append("NEXT %s" % nxt)
    if constants:
        lines.append("CONSTANTS")
        for k, v in constants.items():
            lines.append("    %s = %s" % (k, v))
    for inv in invariants:
        lines.append("INVARIANT %s" % inv)
    for p in props:
        lines.append("PROPERTY %s" % p)
    for c in constraints:
        lines.append("CONSTRAINT %s" % c)
    if view:
        lines.append("VIEW %s" % view)
    if postcondition:
        lines.append("POSTCONDITION %s" % postcondition)
    lines.append("CHECK_DEADLOCK FALSE")
    with open(path, "w") as f:
        f.write("\n".join(lines) + "\n")


TLC_STATS = re.compile(r"(\d+) states generated, (\d+) distinct states found, (\d+) states left on queue")


def parse_tlc_log(text):
    """-> dict(states, transitions, ok, error, violated)"""
    out = {"states": 0, "transitions": 0, "ok": False, "error": None, "violated": None}
    for m in TLC_STATS.finditer(text):
        out["transitions"] = int(m.group(1))
        out["states"] = int(m.group(2))
    if "Model checking completed. No error has been found." in text:
        out["ok"] = True
    m = re.search(r"The number of states generated: (\d+)", text)
    if m and "Simulation using seed" in text and "Error:" not in text:
        out["ok"] = True
        out["states"] = out["transitions"] = int(m.group(1))
    m = re.search(r"Error: Invariant (\S+) is violated", text)
    if m:
        out["violated"] = m.group(1)
    m = re.search(r"Error: Action property (\S+) is violated", text)
    if m:
        out["violated"] = m.group(1)
    if not out["ok"] and not out["violated"]:
        errs = [l for l in text.split("\n") if l.startswith("Error:") or "Exception" in l]
        out["error"] = "\n".join(errs[:10]) or "TLC did not complete"
    return out


def crash_summary(rvout, prop, stderr_text=""):
    """The code under test killed the harness process with a fatal signal (memory error behind the C interface, abort):
    the harness' signal handler left a replay file and an RV-CRASH line.  That is a violation, not a tool error."""
    m = None
    for l in open(rvout, encoding="utf-8", errors="replace"):
        mm = re.match(r"RV-CRASH (\d+) (\S+)", l)
        if mm:
            m = mm
    if not m:
        return None
    sig, path = int(m.group(1)), m.group(2)
    names = {6: "SIGABRT", 11: "SIGSEGV", 7: "SIGBUS", 4: "SIGILL", 8: "SIGFPE"}
    case = {}
    try:
        case = json.load(open(path, encoding="utf-8")).get("case", {})
    except Exception:
        pass
    tail = " ".join(stderr_text.split()[-30:])
    what = "the process was killed by %s while this behaviour was executed (memory error / abort in the code under test)%s" % (
        names.get(sig, "signal %d" % sig), (": " + tail) if tail else "")
    return {"property": prop, "behaviours": 1, "events": 0, "compared": 0, "nontrivial": 1, "violation_count": 1,
            "violations": [{"site": "memory", "what": what, "replay": path, "case": case}],
            "drift_count": 0, "drift_samples": [], "samples": [], "notes": {"crash_handler": 1}}


def run_tlc_replay(run, name, module, cfg_kwargs, prop, workers=4, threads=8, timeout=3000, extra_rv=(), tlc_args=(), env_extra=None):
    """TLC model checking of `module` with Emit piped into `rv replay`.  Returns (tlc_result, rv_summary)."""
    d = run.dir
    cfg = os.path.join(d, name + ".cfg")
    write_cfg(cfg, **cfg_kwargs)
    meta = os.path.join(d, "meta-" + name)
    tlclog = os.path.join(d, name + ".tlc.log")
    rvout = os.path.join(d, name + ".rv.out")
    # -checkpoint 0: the in-memory StateDeque queue cannot be checkpointed (TLC would abort after 30 minutes)
    cmd_tlc = ["timeout", str(timeout), "tlc", "-workers", str(workers), "-checkpoint", "0"] + list(tlc_args) + ["-noGenerateSpecTE", "-metadir", meta,
               "-cleanup", "-config", cfg, module]
    cmd_rv = [RV, "replay", "--property", prop, "--replay-dir", run.replay_dir, "--tlc-log", tlclog,
              "--threads", str(threads)] + list(extra_rv)
    t0 = time.time()
    with open(rvout, "w") as out:
        p1 = subprocess.Popen(cmd_tlc, cwd=SPEC, env=tlc_env(), stdout=subprocess.PIPE, stderr=subprocess.DEVNULL)
        env2 = rv_env()
        env2.update(env_extra or {})
        p2 = subprocess.Popen(cmd_rv, stdin=p1.stdout, stdout=out, stderr=subprocess.PIPE, env=env2)
        p1.stdout.close()
        _, err = p2.communicate()
        p1.wait()
    shutil.rmtree(meta, ignore_errors=True)
    text = open(tlclog, encoding="utf-8", errors="replace").read()
    tlc = parse_tlc_log(text)
    tlc["wall_s"] = round(time.time() - t0, 1)
    tlc["name"] = name
    if p1.returncode == 124:
        raise ToolError("%s: TLC timed out after %ss" % (name, timeout))
    summ = read_summary(rvout)
    if summ is None:
        summ = crash_summary(rvout, prop, err.decode(errors="replace"))
        if summ is not None:
            tlc["error"] = None      # TLC was cut off by the dying harness: not a tool error
    if summ is None:
        raise ToolError("%s: harness produced no summary (rc=%s): %s" % (name, p2.returncode, err.decode()[-2000:]))
    if summ["notes"].get("garbled_replay_lines"):
        raise ToolError("%s: TLC emitted garbled (byte-serialised) strings" % name)
    if summ["notes"].get("hang_watchdog"):
        # the harness ended the pipeline because the code under test hung: TLC was cut off, that is not a tool error
        tlc["error"] = None
    if tlc["error"]:
        raise ToolError("%s: TLC error: %s" % (name, tlc["error"]))
    if tlc["violated"]:
        run.model_violations.append((name, tlc["violated"], tlclog))
    return tlc, summ


def run_record_validate(run, name, driver, trace_module, prop, site, rounds, shards=8, timeout=1500, extra_args=(), focus=None,
                        unit="reset"):
    """impl -> spec: `rv record --driver ...` writes ndjson traces (one per shard, different seeds); TLC validates each
    against `trace_module`.  A rejected trace becomes a violation whose replay file is the trace prefix."""
    import concurrent.futures
    d = run.dir
    cfg = os.path.join(d, name + ".trace.cfg")
    write_cfg(cfg, spec="Spec", postcondition="Accepted")
    t0 = time.time()

    def one(shard):
        trace = os.path.join(d, "%s-%d.ndjson" % (name, shard))
        cmd = [RV, "record", "--driver", driver, "--out", trace, "--rounds", str(rounds), "--shard", str(shard), "--shards", str(shards),
               "--seed", str(run.seed * 1000 + shard), "--corpus-seed", str(run.seed), "--tier", run.tier] + list(extra_args)
        r = subprocess.run(cmd, capture_output=True, text=True, env=rv_env(), timeout=timeout)
        m = re.search(r"RV-RECORDED (\d+)", r.stdout)
        if r.returncode != 0 or not m:
            raise ToolError("%s: recorder failed: %s" % (name, (r.stdout + r.stderr)[-1500:]))
        events = int(m.group(1))
        env = tlc_env()
        env["TRACE"] = trace
        env["FOCUS"] = focus or ""
        env["VERIF_GEN"] = os.path.join(WORK, "gen")
        meta = os.path.join(d, "meta-%s-%d" % (name, shard))
        r = subprocess.run(["timeout", str(timeout), "tlc", "-workers", "1", "-checkpoint", "0", "-noGenerateSpecTE", "-metadir", meta, "-cleanup",
                            "-config", cfg, trace_module], cwd=SPEC, env=env, capture_output=True, text=True)
        shutil.rmtree(meta, ignore_errors=True)
        out = r.stdout
        open(trace + ".tlc.log", "w").write(out)
        m = re.search(r'<<"TRACE-RESULT", (\d+), (\d+)>>', out)
        if not m:
            errs = [l for l in out.split("\n") if "rror" in l][:6]
            raise ToolError("%s: TLC trace validation produced no result: %s" % (name, " | ".join(errs)))
        consumed, total = int(m.group(1)), int(m.group(2))
        fail = re.search(r'<<\s*"TRACE-FAIL",\s*(\d+),\s*"([^"]*)"\s*>>', out)
        st = TLC_STATS.search(out)
        for km in re.finditer(r'<<"TRACE-KNOWN", "(F\d+)", (\d+)>>', out):
            run.trace_known[km.group(1)] = run.trace_known.get(km.group(1), 0) + 1
        return dict(trace=trace, events=events, consumed=consumed, total=total,
                    fail=(int(fail.group(1)), fail.group(2)) if fail else None,
                    states=int(st.group(2)) if st else 0, transitions=int(st.group(1)) if st else 0)

    with concurrent.futures.ThreadPoolExecutor(max_workers=min(shards, NCPU)) as ex:
        results = list(ex.map(one, range(shards)))
    summ = {"property": prop, "behaviours": 0, "events": 0, "compared": 0, "nontrivial": 0, "violations": [], "violation_count": 0,
            "drift_count": 0, "drift_samples": [], "samples": [], "notes": {}}
    states = trans = 0
    distinct = set()
    for r in results:
        summ["events"] += r["events"]
        summ["compared"] += r["consumed"]
        states += r["states"]; trans += r["transitions"]
        lines = open(r["trace"], encoding="utf-8").read().split("\n")
        if unit == "event":
            rounds_n = sum(1 for l in lines if l and '"ev":"reset"' not in l and '"ev":"noise"' not in l)
        else:
            rounds_n = sum(1 for l in lines if '"ev":"%s"' % unit in l)
        summ["behaviours"] += rounds_n
        # distinct cases, measured: distinct event lines (unit = event) / distinct round contents (otherwise)
        import hashlib
        if unit == "event":
            for l in lines:
                if l and '"ev":"reset"' not in l and '"ev":"noise"' not in l:
                    distinct.add(hashlib.md5(l.encode()).digest())
        else:
            cur = []
            for l in lines + ['"ev":"%s"' % unit]:
                if ('"ev":"%s"' % unit) in l:
                    if len(cur) > 1:
                        distinct.add(hashlib.md5("\n".join(cur).encode()).digest())
                    cur = [l]
                elif l:
                    cur.append(l)
        if not summ["samples"] and len(lines) > 3:
            summ["samples"].append({"trace_module": trace_module, "first_events": [json.loads(l) for l in lines[:4] if l]})
        if r["consumed"] < r["total"]:
            k = r["consumed"] + 1          # 1-based line that was not accepted
            # cut the replay at the enclosing round
            start = k - 1
            while unit != "event" and start > 0 and ('"ev":"%s"' % unit) not in lines[start]:
                start -= 1
            os.makedirs(run.replay_dir, exist_ok=True)
            rp = os.path.join(run.replay_dir, "%s-trace-%d.ndjson" % (name, len(summ["violations"])))
            open(rp, "w", encoding="utf-8").write("\n".join(lines[start:k]) + "\n")
            msg = r["fail"][1] if r["fail"] else "event not allowed by the specification"
            summ["violation_count"] += 1
            summ["violations"].append({"site": site, "what": "trace %s rejected at event %d: %s :: %s"
                                       % (os.path.basename(r["trace"]), k, msg, lines[k - 1][:600]),
                                       "replay": rp, "case": {"event": json.loads(lines[k - 1]) if lines[k - 1] else None}})
        else:
            run.traces_validated += rounds_n
    summ["nontrivial"] = len(distinct)
    tlc = {"name": name, "states": states, "transitions": trans, "ok": True, "error": None, "violated": None,
           "wall_s": round(time.time() - t0, 1)}
    return tlc, summ


def rv_env():
    env = dict(os.environ)
    env["VERIF_GEN"] = os.path.join(WORK, "gen")
    env["VERIF_TMP"] = os.path.join(WORK, "tmp")
    env["RITI_REPO"] = REPO
    return env


def read_summary(path):
    s = None
    with open(path, encoding="utf-8", errors="replace") as f:
        for line in f:
            if line.startswith("RV-SUMMARY "):
                s = json.loads(line[len("RV-SUMMARY "):])
    return s


# --------------------------------------------------------------------------------------------
# a run = one invocation of check <ID>

class Run:
    def __init__(self, pid, tier, seed, keep_replays=False):
        self.pid, self.tier, self.seed = pid, tier, seed
        self.dir = os.path.join(WORK, "run-%s-%d" % (pid, os.getpid()))
        shutil.rmtree(self.dir, ignore_errors=True)
        os.makedirs(self.dir)
        self.replay_dir = os.path.join(VERIF, "replays", pid)
        if not keep_replays:
            shutil.rmtree(self.replay_dir, ignore_errors=True)
        os.makedirs(self.replay_dir, exist_ok=True)
        self.tlc = []          # TLC results
        self.summaries = []    # harness summaries
        self.model_violations = []
        self.traces_validated = 0
        self.extra = {}
        self.trace_known = {}   # known findings the trace specifications accepted explicitly
        self.sites = None      # violation sites that belong to this property (None = all)
        self.assumptions = []
        self.rule = ""
        self.t0 = time.time()

    def quick(self):
        return self.tier != "thorough"

    def add(self, tlc, summ):
        if tlc:
            self.tlc.append(tlc)
        if summ:
            self.summaries.append(summ)


def load_known():
    p = os.path.join(VERIF, "known_findings.json")
    if not os.path.exists(p):
        return []
    return json.load(open(p, encoding="utf-8"))["findings"]


def match_known(pid, viol, known):
    """A violation is a known finding iff a *known* (not fixed) entry of this property matches its site and
    its explicit predicate (regular expressions over the violation's description / case)."""
    for k in known:
        if k.get("status") != "known" or k["property"] != pid:
            continue
        # entries that the trace specifications accept by a named disjunct (TRACE-KNOWN) carry no predicate here and
        # must never swallow a violation; an entry without an explicit predicate matches nothing
        if not (k.get("what_re") or k.get("case_re")):
            continue
        if k.get("site") and k["site"] != viol.get("site"):
            continue
        if k.get("what_re") and not re.search(k["what_re"], viol.get("what", "")):
            continue
        if k.get("case_re") and not re.search(k["case_re"], json.dumps(viol.get("case"), ensure_ascii=False)):
            continue
        return k
    return None


def finish(run):
    pid = run.pid
    known = load_known()
    viols, known_hits, other_sites = [], {}, {}
    rc_extra = []
    total_viol = 0
    for s in run.summaries:
        total_viol += s["violation_count"]
        for v in s["violations"]:
            # (site 'memory': the code under test killed the process on an input of this check - the exploration was cut
            #  short by the engine itself, which no property tolerates)
            if run.sites is not None and v.get("site") not in run.sites and v.get("site") != "memory":
                other_sites[v.get("site")] = other_sites.get(v.get("site"), 0) + 1
                continue
            k = match_known(pid, v, known)
            if k:
                known_hits.setdefault(k["id"], [k, 0])[1] += 1
            else:
                viols.append(v)
    # violations beyond the stored cap cannot be classified: if every stored one is known, assume the
    # rest are the same finding only when all stored ones matched (conservative otherwise).
    stored = sum(len(s["violations"]) for s in run.summaries)
    unclassified = total_viol - stored
    if run.sites is not None:
        unclassified = 0   # the per-site split of unstored violations is unknown; stored ones decide
    for site, n in other_sites.items():
        log("NOTE: %d stored violation(s) at site '%s' belong to another property's check" % (n, site))
    for kid, n in run.trace_known.items():
        k = next((x for x in known if x["id"] == kid and x.get("status") == "known"), None)
        if k is None:
            log("VIOLATION property=%s replay=-" % pid)
            log("   trace specification accepted %s as a known finding, but known_findings.json does not list it as known" % kid)
            rc_extra.append(1)
        else:
            known_hits.setdefault(kid, [k, 0])[1] += n
    for kid, (k, n) in known_hits.items():
        log("KNOWN-FINDING: property=%s %s (%d occurrence(s) this run)" % (pid, k["what"], n))
    rc = 0
    for v in viols[:10]:
        log("VIOLATION property=%s replay=%s" % (pid, v.get("replay") or "-"))
        log("   " + v.get("site", "") + ": " + v.get("what", "")[:400])
        rc = 1
    if unclassified > 0 and viols:
        log("   (+%d further violations not stored)" % unclassified)
    for name, inv, tlclog in run.model_violations:
        log("MODEL-VIOLATION: %s: invariant %s fails on the specification (see %s)" % (name, inv, tlclog))
    drift = sum(s["drift_count"] for s in run.summaries)
    if drift:
        ex = next((s["drift_samples"][0]["what"] for s in run.summaries if s["drift_samples"]), "")
        log("MODEL-DRIFT: %d behaviour(s) where the code takes an allowed path the transcript does not describe (e.g. %s)"
            % (drift, ex[:200]))
    # evidence
    states = sum(t["states"] for t in run.tlc)
    trans = sum(t["transitions"] for t in run.tlc)
    samples = []
    for s in run.summaries:
        samples += s["samples"]
    cov = {
        "states": states,
        "transitions": trans,
        "traces_validated_against_impl": run.traces_validated,
        "samples": samples[:6] or [{"note": "no sample recorded"}],
        "evaluations": max(sum(s["events"] for s in run.summaries), sum(s["behaviours"] for s in run.summaries)),
        "distinct_nontrivial": sum(s["nontrivial"] for s in run.summaries),
        "behaviours_replayed": sum(s["behaviours"] for s in run.summaries),
        "comparisons": sum(s["compared"] for s in run.summaries),
        "rule": run.rule,
        "tlc_runs": run.tlc,
        "model_drift": drift,
        "known_findings_seen": {k: n for k, (_, n) in known_hits.items()},
        "trusted_base": ["TLC 1.8.0 + CommunityModules (Json, IOUtils)", "the harness executor (engine.rs) and its abstraction",
                         "bin/gen.py name table transcribed from riti.h", "rustc/cargo"],
    }
    cov.update(run.extra)
    ev = {
        "property_id": pid, "tier": "thorough" if run.tier == "thorough" else "quick", "seed": run.seed,
        "level": run.extra.get("level", "model_checking"), "coverage": cov,
        "assumptions": run.assumptions, "wall_s": round(time.time() - run.t0, 1),
        "violations": len(viols) + (unclassified if viols else 0),
    }
    cov.pop("level", None)
    os.makedirs(os.path.join(VERIF, "evidence"), exist_ok=True)
    with open(os.path.join(VERIF, "evidence", pid + ".json"), "w", encoding="utf-8") as f:
        json.dump(ev, f, ensure_ascii=False, indent=1)
    if rc_extra:
        rc = 1
    if run.model_violations and rc == 0:
        rc = 2
    if rc == 0:
        shutil.rmtree(run.dir, ignore_errors=True)
        try:
            os.rmdir(run.replay_dir)
        except OSError:
            pass
    log("check %s (%s): %s  [%d behaviours, %d events, %d TLC states, %.0fs]"
        % (pid, run.tier, {0: "OK", 1: "VIOLATION", 2: "TOOL-ERROR"}[rc], cov["behaviours_replayed"],
           cov["evaluations"], states, time.time() - run.t0))
    return rc


def run_check(pid, tier, seed, replay=None):
    import props
    if pid not in props.PROPS:
        log("check: property %s has no check" % pid)
        return 2
    try:
        prepare()
        run = Run(pid, tier, seed, keep_replays=bool(replay))
        if replay:
            rc = props.replay_file(run, os.path.abspath(replay))
            shutil.rmtree(run.dir, ignore_errors=True)
            return rc
        props.PROPS[pid](run)
        return finish(run)
    except ToolError as e:
        log("TOOL-ERROR: %s" % e)
        return 2
