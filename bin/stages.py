"""Orchestration shared by all property checks (see bin/check)."""
import fcntl, glob, json, os, re, shutil, subprocess, sys, time

VERIF = os.path.dirname(os.path.dirname(os.path.abspath(__file__)))
REPO = os.environ.get("RITI_REPO", "/repo")
SPEC = os.path.join(VERIF, "spec")
WORK = os.path.join(VERIF, "work")
RV = os.path.join(VERIF, "harness", "target", "release", "rv")
JAVA_OPTS = ("-Dfile.encoding=UTF-8 -Dstdout.encoding=UTF-8 -Xss1g "
             "-Dtlc2.tool.queue.IStateQueue=StateDeque")
NCPU = os.cpu_count() or 4


class ToolError(Exception):
    pass


def log(*a):
    print(*a, flush=True)


# --------------------------------------------------------------------------------------------
# preparation: generated data + harness build (serialised across concurrent checks)

def prepare():
    os.makedirs(WORK, exist_ok=True)
    with open(os.path.join(WORK, "build.lock"), "w") as lk:
        fcntl.flock(lk, fcntl.LOCK_EX)
        r = subprocess.run([sys.executable, os.path.join(VERIF, "bin", "gen.py")], capture_output=True, text=True)
        if r.returncode != 0:
            raise ToolError("gen.py failed: " + r.stdout + r.stderr)
        env = dict(os.environ, CARGO_NET_OFFLINE="true")
        r = subprocess.run(["cargo", "build", "--release", "--offline"], cwd=os.path.join(VERIF, "harness"),
                           capture_output=True, text=True, env=env)
        if r.returncode != 0:
            # /repo does not compile (or the harness does not compile against it): tool error, not a verdict
            raise ToolError("cargo build of the harness against %s failed:\n%s" % (REPO, r.stderr[-4000:]))


# --------------------------------------------------------------------------------------------
# TLC

def tlc_env():
    env = dict(os.environ)
    env["JAVA_TOOL_OPTIONS"] = JAVA_OPTS
    return env


def write_cfg(path, spec=None, init=None, nxt=None, constants=None, invariants=(), constraints=(),
              postcondition=None, view=None, props=()):
    lines = []
    if spec:
        lines.append("SPECIFICATION %s" % spec)
    if init:
        lines.append("INIT %s" % init)
    if nxt:
        lines.append("NEXT %s" % nxt)
    if constants:
        lines.append("CONSTANTS")
        for k, v in constants.items():
            lines.append("    %s = %s" % (k, v))
    for inv in invariants:
        lines.append("INVARIANT %s" % inv)
    for p in props:
        lines.append("PROPERTY %s" % p)
    for c in constraints:
        lines.append("CONSTRAINT %s" % c)
    if view:
        lines.append("VIEW %s" % view)
    if postcondition:
        lines.append("POSTCONDITION %s" % postcondition)
    lines.append("CHECK_DEADLOCK FALSE")
    with open(path, "w") as f:
        f.write("\n".join(lines) + "\n")


TLC_STATS = re.compile(r"(\d+) states generated, (\d+) distinct states found, (\d+) states left on queue")


def parse_tlc_log(text):
    """-> dict(states, transitions, ok, error, violated)"""
    out = {"states": 0, "transitions": 0, "ok": False, "error": None, "violated": None}
    for m in TLC_STATS.finditer(text):
        out["transitions"] = int(m.group(1))
        out["states"] = int(m.group(2))
    if "Model checking completed. No error has been found." in text:
        out["ok"] = True
    m = re.search(r"Error: Invariant (\S+) is violated", text)
    if m:
        out["violated"] = m.group(1)
    m = re.search(r"Error: Action property (\S+) is violated", text)
    if m:
        out["violated"] = m.group(1)
    if not out["ok"] and not out["violated"]:
        errs = [l for l in text.split("\n") if l.startswith("Error:") or "Exception" in l]
        out["error"] = "\n".join(errs[:10]) or "TLC did not complete"
    return out


def run_tlc_replay(run, name, module, cfg_kwargs, prop, workers=4, threads=8, timeout=3000, extra_rv=()):
    """TLC model checking of `module` with Emit piped into `rv replay`.  Returns (tlc_result, rv_summary)."""
    d = run.dir
    cfg = os.path.join(d, name + ".cfg")
    write_cfg(cfg, **cfg_kwargs)
    meta = os.path.join(d, "meta-" + name)
    tlclog = os.path.join(d, name + ".tlc.log")
    rvout = os.path.join(d, name + ".rv.out")
    cmd_tlc = ["timeout", str(timeout), "tlc", "-workers", str(workers), "-noGenerateSpecTE", "-metadir", meta,
               "-cleanup", "-config", cfg, module]
    cmd_rv = [RV, "replay", "--property", prop, "--replay-dir", run.replay_dir, "--tlc-log", tlclog,
              "--threads", str(threads)] + list(extra_rv)
    t0 = time.time()
    with open(rvout, "w") as out:
        p1 = subprocess.Popen(cmd_tlc, cwd=SPEC, env=tlc_env(), stdout=subprocess.PIPE, stderr=subprocess.DEVNULL)
        p2 = subprocess.Popen(cmd_rv, stdin=p1.stdout, stdout=out, stderr=subprocess.PIPE, env=rv_env())
        p1.stdout.close()
        _, err = p2.communicate()
        p1.wait()
    shutil.rmtree(meta, ignore_errors=True)
    text = open(tlclog, encoding="utf-8", errors="replace").read()
    tlc = parse_tlc_log(text)
    tlc["wall_s"] = round(time.time() - t0, 1)
    tlc["name"] = name
    if p1.returncode == 124:
        raise ToolError("%s: TLC timed out after %ss" % (name, timeout))
    summ = read_summary(rvout)
    if summ is None:
        raise ToolError("%s: harness produced no summary (rc=%s): %s" % (name, p2.returncode, err.decode()[-2000:]))
    if summ["notes"].get("garbled_replay_lines"):
        raise ToolError("%s: TLC emitted garbled (byte-serialised) strings" % name)
    if tlc["error"]:
        raise ToolError("%s: TLC error: %s" % (name, tlc["error"]))
    if tlc["violated"]:
        run.model_violations.append((name, tlc["violated"], tlclog))
    return tlc, summ


def rv_env():
    env = dict(os.environ)
    env["VERIF_GEN"] = os.path.join(WORK, "gen")
    env["VERIF_TMP"] = os.path.join(WORK, "tmp")
    env["RITI_REPO"] = REPO
    return env


def read_summary(path):
    s = None
    with open(path, encoding="utf-8", errors="replace") as f:
        for line in f:
            if line.startswith("RV-SUMMARY "):
                s = json.loads(line[len("RV-SUMMARY "):])
    return s


# --------------------------------------------------------------------------------------------
# a run = one invocation of check <ID>

class Run:
    def __init__(self, pid, tier, seed):
        self.pid, self.tier, self.seed = pid, tier, seed
        self.dir = os.path.join(WORK, "run-%s-%d" % (pid, os.getpid()))
        shutil.rmtree(self.dir, ignore_errors=True)
        os.makedirs(self.dir)
        self.replay_dir = os.path.join(VERIF, "replays", pid)
        shutil.rmtree(self.replay_dir, ignore_errors=True)
        os.makedirs(self.replay_dir, exist_ok=True)
        self.tlc = []          # TLC results
        self.summaries = []    # harness summaries
        self.model_violations = []
        self.traces_validated = 0
        self.extra = {}
        self.sites = None      # violation sites that belong to this property (None = all)
        self.assumptions = []
        self.rule = ""
        self.t0 = time.time()

    def quick(self):
        return self.tier != "thorough"

    def add(self, tlc, summ):
        if tlc:
            self.tlc.append(tlc)
        if summ:
            self.summaries.append(summ)


def load_known():
    p = os.path.join(VERIF, "known_findings.json")
    if not os.path.exists(p):
        return []
    return json.load(open(p, encoding="utf-8"))["findings"]


def match_known(pid, viol, known):
    """A violation is a known finding iff a *known* (not fixed) entry of this property matches its site and
    its explicit predicate (regular expressions over the violation's description / case)."""
    for k in known:
        if k.get("status") != "known" or k["property"] != pid:
            continue
        if k.get("site") and k["site"] != viol.get("site"):
            continue
        if k.get("what_re") and not re.search(k["what_re"], viol.get("what", "")):
            continue
        if k.get("case_re") and not re.search(k["case_re"], json.dumps(viol.get("case"), ensure_ascii=False)):
            continue
        return k
    return None


def finish(run):
    pid = run.pid
    known = load_known()
    viols, known_hits, other_sites = [], {}, {}
    total_viol = 0
    for s in run.summaries:
        total_viol += s["violation_count"]
        for v in s["violations"]:
            if run.sites is not None and v.get("site") not in run.sites:
                other_sites[v.get("site")] = other_sites.get(v.get("site"), 0) + 1
                continue
            k = match_known(pid, v, known)
            if k:
                known_hits.setdefault(k["id"], [k, 0])[1] += 1
            else:
                viols.append(v)
    # violations beyond the stored cap cannot be classified: if every stored one is known, assume the
    # rest are the same finding only when all stored ones matched (conservative otherwise).
    stored = sum(len(s["violations"]) for s in run.summaries)
    unclassified = total_viol - stored
    if run.sites is not None:
        unclassified = 0   # the per-site split of unstored violations is unknown; stored ones decide
    for site, n in other_sites.items():
        log("NOTE: %d stored violation(s) at site '%s' belong to another property's check" % (n, site))
    for kid, (k, n) in known_hits.items():
        log("KNOWN-FINDING: property=%s %s (%d occurrence(s) this run)" % (pid, k["what"], n))
    rc = 0
    for v in viols[:10]:
        log("VIOLATION property=%s replay=%s" % (pid, v.get("replay") or "-"))
        log("   " + v.get("site", "") + ": " + v.get("what", "")[:400])
        rc = 1
    if unclassified > 0 and viols:
        log("   (+%d further violations not stored)" % unclassified)
    for name, inv, tlclog in run.model_violations:
        log("MODEL-VIOLATION: %s: invariant %s fails on the specification (see %s)" % (name, inv, tlclog))
    drift = sum(s["drift_count"] for s in run.summaries)
    if drift:
        ex = next((s["drift_samples"][0]["what"] for s in run.summaries if s["drift_samples"]), "")
        log("MODEL-DRIFT: %d behaviour(s) where the code takes an allowed path the transcript does not describe (e.g. %s)"
            % (drift, ex[:200]))
    # evidence
    states = sum(t["states"] for t in run.tlc)
    trans = sum(t["transitions"] for t in run.tlc)
    samples = []
    for s in run.summaries:
        samples += s["samples"]
    cov = {
        "states": states,
        "transitions": trans,
        "traces_validated_against_impl": run.traces_validated,
        "samples": samples[:6] or [{"note": "no sample recorded"}],
        "evaluations": sum(s["events"] for s in run.summaries),
        "distinct_nontrivial": sum(s["nontrivial"] for s in run.summaries),
        "behaviours_replayed": sum(s["behaviours"] for s in run.summaries),
        "comparisons": sum(s["compared"] for s in run.summaries),
        "rule": run.rule,
        "tlc_runs": run.tlc,
        "model_drift": drift,
        "known_findings_seen": {k: n for k, (_, n) in known_hits.items()},
        "trusted_base": ["TLC 1.8.0 + CommunityModules (Json, IOUtils)", "the harness executor (engine.rs) and its abstraction",
                         "bin/gen.py name table transcribed from riti.h", "rustc/cargo"],
    }
    cov.update(run.extra)
    ev = {
        "property_id": pid, "tier": "thorough" if run.tier == "thorough" else "quick", "seed": run.seed,
        "level": run.extra.get("level", "model_checking"), "coverage": cov,
        "assumptions": run.assumptions, "wall_s": round(time.time() - run.t0, 1),
        "violations": len(viols) + (unclassified if viols else 0),
    }
    cov.pop("level", None)
    os.makedirs(os.path.join(VERIF, "evidence"), exist_ok=True)
    with open(os.path.join(VERIF, "evidence", pid + ".json"), "w", encoding="utf-8") as f:
        json.dump(ev, f, ensure_ascii=False, indent=1)
    if run.model_violations and rc == 0:
        rc = 2
    if rc == 0:
        shutil.rmtree(run.dir, ignore_errors=True)
        try:
            os.rmdir(run.replay_dir)
        except OSError:
            pass
    log("check %s (%s): %s  [%d behaviours, %d events, %d TLC states, %.0fs]"
        % (pid, run.tier, {0: "OK", 1: "VIOLATION", 2: "TOOL-ERROR"}[rc], cov["behaviours_replayed"],
           cov["evaluations"], states, time.time() - run.t0))
    return rc


def run_check(pid, tier, seed, replay=None):
    import props
    if pid not in props.PROPS:
        log("check: property %s has no check" % pid)
        return 2
    try:
        prepare()
        run = Run(pid, tier, seed)
        if replay:
            return props.replay_file(run, replay)
        props.PROPS[pid](run)
        return finish(run)
    except ToolError as e:
        log("TOOL-ERROR: %s" % e)
        return 2
