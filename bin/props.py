"""Per-property stages.  Each function receives a stages.Run and appends TLC results / harness summaries."""
import json, os
from stages import *  # noqa: F401,F403
import stages


def c12(run):
    run.rule = ("TLC enumerates every history of key values/backspaces up to the depth over the class alphabet "
                "(24 values incl. multi-code-point keys) x 16 helper settings; each maximal history is replayed through "
                "the real engine (synthetic layout, suggestions off) and the pre-edit text after EVERY event must be one "
                "the specification (PropKeySet/PropBackspace) allows.  Non-trivial = the expected text is non-empty.")
    depth = 3 if run.quick() else 4
    tlc, s = run_tlc_replay(run, "MC_Fixed", "MC_Fixed.tla",
                            dict(spec="Spec", constants={"Depth": depth, "Alphabet": '"full"'},
                                 invariants=["ImplRefinesProp", "AutoVowelInv", "Emit"]),
                            "C12", workers=4, threads=8)
    run.add(tlc, s)
    run.assumptions += ["class representatives stand for their class (one consonant etc.); edge characters on which "
                        "riti's tables and the Unicode chart differ are outside the normative alphabet",
                        "bounded exhaustiveness: depth %d" % depth]


def c13(run):
    run.rule = ("TLC enumerates every history up to the depth over the 12 values the reph scan distinguishes (consonants, vowel, "
                "signs, hasanta, chandrabindu, punctuation, ZWNJ, reph/ro-fola/zo-fola keys) x 8 settings of the other helpers with old "
                "reph on; checks ImplReph against PropRephSet (conservation for every text, exact placement for texts matching the "
                "syllable grammar) and replays every history ending in the reph key through the real engine.  Non-trivial = expected text non-empty.")
    depth = 5 if run.quick() else 6
    tlc, s = run_tlc_replay(run, "MC_Reph", "MC_Fixed.tla",
                            dict(spec="Spec", constants={"Depth": depth, "Alphabet": '"reph"'},
                                 invariants=["ImplRefinesProp", "Emit"]),
                            "C13", workers=8, threads=8)
    run.add(tlc, s)
    # option off: the reph key simply appends its value -- covered by the full alphabet with reph off
    tlc, s = run_tlc_replay(run, "MC_Fixed_d3", "MC_Fixed.tla",
                            dict(spec="Spec", constants={"Depth": 3, "Alphabet": '"full"'},
                                 invariants=["ImplRefinesProp", "Emit"]),
                            "C13", workers=4, threads=8)
    run.add(tlc, s)
    run.assumptions += ["placement clause only for texts matching the syllable grammar of FixedCompose.WellFormed; other texts: conservation",
                        "bounded exhaustiveness: depth %d over the reph alphabet" % depth]


PROPS = {"C12": c12, "C13": c13}


def replay_file(run, path):
    doc = json.load(open(path, encoding="utf-8"))
    print(json.dumps(doc, ensure_ascii=False, indent=1)[:4000])
    return 0
