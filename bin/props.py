"""Per-property stages.  Each function receives a stages.Run and appends TLC results / harness summaries."""
import json, os
from stages import *  # noqa: F401,F403
import stages


def fixed_trace(run, site):
    rounds = 25 if run.quick() else 250
    tlc, s = run_record_validate(run, "session", "session", "Trace_Session.tla", run.pid, site, rounds, shards=12, focus="C12", unit="new", timeout=6000)
    run.add(tlc, s)
    run.rule += ("  ||  impl -> spec: 12 x %d recorded random histories (see C01) validated against Trace_Session with Focus=C12: in fixed mode with old vowel order off every key "
                 "must lead to a text PropKeySet allows for the value Layout.Expected assigns to the key code, every backspace removes exactly one code point" % rounds)


def c12(run):
    run.rule = ("TLC enumerates every history of key values/backspaces up to the depth over the class alphabet "
                "(24 values incl. multi-code-point keys) x 16 helper settings; each maximal history is replayed through "
                "the real engine (synthetic layout, suggestions off) and the pre-edit text after EVERY event must be one "
                "the specification (PropKeySet/PropBackspace) allows.  Non-trivial = the expected text is non-empty.")
    depth = 3 if run.quick() else 4
    tlc, s = run_tlc_replay(run, "MC_Fixed", "MC_Fixed.tla",
                            dict(spec="Spec", constants={"Depth": depth, "Alphabet": '"full"'},
                                 invariants=["ImplRefinesProp", "AutoVowelInv", "Emit"]),
                            "C12", workers=4, threads=8)
    run.add(tlc, s)
    d2 = 5 if run.quick() else 6
    tlc, s = run_tlc_replay(run, "MC_Fixed_small", "MC_Fixed.tla",
                            dict(spec="Spec", constants={"Depth": d2, "Alphabet": '"small"'},
                                 invariants=["ImplRefinesProp", "Emit"]),
                            "C12", workers=6, threads=8)
    run.add(tlc, s)
    run.rule += ("  ||  and every history to depth %d over the 8 values the priority chain itself distinguishes (consonant, three vowel signs, hasanta, chandrabindu, digit, "
                 "punctuation) x 16 settings" % d2)
    d3 = 2 if run.quick() else 3
    tlc, s = run_tlc_replay(run, "MC_Fixed_classes", "MC_Fixed.tla",
                            dict(spec="Spec", constants={"Depth": d3, "Alphabet": '"classes"'},
                                 invariants=["ImplRefinesProp", "Emit"]),
                            "C12", workers=6, threads=8)
    run.add(tlc, s)
    run.rule += ("  ||  and every pair of members of every class the rules name (30 punctuation marks, 36 consonants, 11 vowels, 10 vowel signs, "
                 "10 digits, the special signs and multi-code-point values: 107 values)%s x 16 settings" % (" followed by one of the 8 chain-level values" if d3 > 2 else ""))
    # layout sweep: every value a key of the layout files can emit that NO class holds (nukta, avagraha, currency / fraction signs, ZWJ,
    # ASCII symbols ...), before and after every class member and every other such value, then a backspace
    tlc, s = run_tlc_replay(run, "MC_Fixed_layout", "MC_Fixed.tla",
                            dict(spec="Spec", constants={"Depth": 3, "Alphabet": '"layout"'},
                                 invariants=["ImplRefinesProp", "Emit"]),
                            "C12", workers=6, threads=8)
    run.add(tlc, s)
    run.rule += ("  ||  layout sweep ('otherwise plain appending' holds for EVERY value a key can emit): each value of the layout file that no class of the "
                 "rules holds, before and after every class member and every other such value, followed by a backspace, x 16 settings")
    fixed_trace(run, "compose")
    run.assumptions += ["class representatives stand for their class (one consonant etc.); edge characters on which "
                        "riti's tables and the Unicode chart differ are outside the normative alphabet",
                        "bounded exhaustiveness: depth %d" % depth]


def c13(run):
    run.rule = ("TLC enumerates every history up to the depth over the 12 values the reph scan distinguishes (consonants, vowel, "
                "signs, hasanta, chandrabindu, punctuation, ZWNJ, reph/ro-fola/zo-fola keys) x 8 settings of the other helpers with old "
                "reph on; checks ImplReph against PropRephSet (conservation for every text, exact placement for texts matching the "
                "syllable grammar) and replays every history ending in the reph key through the real engine.  Non-trivial = expected text non-empty.")
    depth = 5 if run.quick() else 6
    tlc, s = run_tlc_replay(run, "MC_Reph", "MC_Fixed.tla",
                            dict(spec="Spec", constants={"Depth": depth, "Alphabet": '"reph"'},
                                 invariants=["ImplRefinesProp", "Emit"]),
                            "C13", workers=8, threads=8)
    run.add(tlc, s)
    # class sweep: all ten vowel signs (incl. the two-part ones), anusvara / visarga / khanda-ta, a digit - shorter histories
    dc = 4 if run.quick() else 5
    tlc, s = run_tlc_replay(run, "MC_Reph_classes", "MC_Fixed.tla",
                            dict(spec="Spec", constants={"Depth": dc, "Alphabet": '"rephclasses"'},
                                 invariants=["ImplRefinesProp", "Emit"]),
                            "C13", workers=8, threads=8)
    run.add(tlc, s)
    run.rule += ("  ||  and every history to depth %d ending in the reph key over 25 values: three consonants, khanda-ta, ALL ten vowel signs, a vowel, hasanta, "
                 "chandrabindu, anusvara, visarga, ZWNJ, punctuation, digit, reph / ro-fola / zo-fola keys" % dc)
    tlc, s = run_tlc_replay(run, "MC_Reph_cons", "MC_Fixed.tla",
                            dict(spec="Spec", constants={"Depth": 4, "Alphabet": '"rephcons"'},
                                 invariants=["ImplRefinesProp", "Emit"]),
                            "C13", workers=8, threads=8)
    run.add(tlc, s)
    run.rule += ("  ||  and every history of <= 4 keys ending in the reph key over EVERY one of the 36 consonants, hasanta and two vowel signs")
    # impl -> spec: the reph key inside recorded fixed-layout sessions (suggestions off and on: with the list on, the first candidate
    # must be the composed text too), incl. the same key under another plane after a correction
    rounds = 25 if run.quick() else 250
    tlc, s = run_record_validate(run, "session", "session", "Trace_Session.tla", "C13", "compose", rounds, shards=12, focus="C13", unit="new", timeout=6000)
    run.add(tlc, s)
    run.rule += ("  ||  impl -> spec: 12 x %d recorded sessions validated against Trace_Session with Focus=C13 (the composition conjunct for every key, the reph key "
                 "among them; with the list on the first candidate must be the composed text)" % rounds)
    # deep syllables: histories generated by the syllable grammar (conjuncts of many members)
    dd = 9 if run.quick() else 11
    tlc, s = run_tlc_replay(run, "MC_Reph_deep", "MC_Fixed.tla",
                            dict(spec="Spec", constants={"Depth": dd, "Alphabet": '"rephdeep"'},
                                 invariants=["ImplRefinesProp", "Emit"]),
                            "C13", workers=8, threads=8)
    run.add(tlc, s)
    run.rule += ("  ||  deep final syllables: every history of <= %d keys generated by the syllable grammar itself - optional leading character, conjunct of "
                 "consonants joined by hasanta or by the ro-fola / zo-fola keys (up to %d members), optional vowel sign, optional chandrabindu, reph key - "
                 "4 settings of the other helpers" % (dd, dd - 3))
    # option off: the reph key simply appends its value -- covered by the full alphabet with reph off
    tlc, s = run_tlc_replay(run, "MC_Fixed_d3", "MC_Fixed.tla",
                            dict(spec="Spec", constants={"Depth": 3, "Alphabet": '"full"'},
                                 invariants=["ImplRefinesProp", "Emit"]),
                            "C13", workers=4, threads=8)
    run.add(tlc, s)
    run.assumptions += ["placement clause only for texts matching the syllable grammar of FixedCompose.WellFormed; other texts: conservation",
                        "bounded exhaustiveness: depth %d over the reph alphabet" % depth]


def c14(run):
    run.rule = ("TLC builds every word of up to N syllables from the grammar (onsets: single consonants, conjuncts via hasanta / ro-fola / "
                "zo-fola / a conjunct key; all ten vowel signs incl. both second halves of AU; chandrabindu; independent vowel, punctuation, "
                "digit) x 16 helper settings, runs the typewriter-order key sequence through the machine with the option on and the Unicode-order "
                "sequence with it off (product construction, invariant OldOrderEquiv + WaitingSign); every maximal word is typed into two real "
                "contexts and the pre-edit texts are compared after every whole syllable.  Non-trivial = every replayed word pair.")
    if run.quick():
        n, rich = 2, "base"
    else:
        n, rich = 2, "rich"
    tlc, s = run_tlc_replay(run, "MC_OldKar", "MC_OldKar.tla",
                            dict(spec="Spec", constants={"MaxSyl": n, "Rich": '"%s"' % rich},
                                 invariants=["OldOrderEquiv", "WaitingSign", "Emit"]),
                            "C14", workers=8, threads=8)
    run.add(tlc, s)
    # consonant sweep: every one of the 36 consonants as onset, as first and as second member of a conjunct (second syllable)
    tlc, s = run_tlc_replay(run, "MC_OldKar_cons", "MC_OldKar.tla",
                            dict(spec="Spec", constants={"MaxSyl": 2, "Rich": '"cons"'},
                                 invariants=["OldOrderEquiv", "WaitingSign", "Emit"]),
                            "C14", workers=8, threads=8)
    run.add(tlc, s)
    run.rule += ("  ||  consonant sweep: every one of the 36 consonants alone, as first and as second member of a conjunct, with every sign / chandrabindu, as second "
                 "syllable after a plain consonant or punctuation")
    run.assumptions += ["only grammar-generated words are compared; behaviour of old-order typing on ill-formed key sequences is descriptive",
                        "bounded: words of <= %d syllables, onset set %s" % (n, rich)]


def c04(run):
    run.rule = ("TLC enumerates the complete space 65536 codes x 11 modifier patterns (0..7, 0x80, 0xFD, 0xFF) x numpad on/off x 2 layouts "
                "(bundled Probhat, synthetic with multi-code-point / empty / missing entries) as initial states of MC_Layout, checks "
                "shift- and high-bit-insensitivity, numpad gating and 'only published codes emit', and emits the sparse table of non-empty "
                "expectations; the harness presses EVERY point of the same space on the real engine (helpers and suggestions off) and compares "
                "pre-edit text, emptiness and session flag with the table; unassigned keys are also pressed after one prior key.  "
                "Non-trivial = points whose expected value is non-empty.")
    os.environ["VERIF_GEN"] = os.path.join(stages.WORK, "gen")
    tlc, s = run_tlc_replay(run, "MC_Layout", "MC_Layout.tla",
                            dict(spec="Spec", invariants=["ShiftInsensitive", "HighBitsInsensitive", "OnlyPublished", "NumpadGating",
                                                          "Reaches", "Emit"]),
                            "C04", workers=8, threads=2)
    run.add(tlc, s)
    run.extra["exhaustive"] = True
    run.sites = {"layout", "layout-inert", "panic"}
    rounds = 20 if run.quick() else 200
    tlc2, s2 = run_record_validate(run, "session", "session", "Trace_Session.tla", "C04", "layout-inert", rounds, shards=12, focus="C04", unit="new", timeout=6000)
    run.add(tlc2, s2)
    run.rule += ("  ||  impl -> spec: 12 x %d recorded random histories validated against Trace_Session with Focus=C04: a key for which Layout.Expected is empty (in the "
                 "current configuration, any modifier) returns the composition and session flag unchanged, in whatever state the context is" % rounds)
    if s["notes"].get("layout_table_rows", 0) < 1000:
        raise ToolError("MC_Layout emitted only %s table rows" % s["notes"].get("layout_table_rows"))
    run.assumptions += ["the VC_* name -> layout entry naming convention transcribed in bin/gen.py from riti.h's names",
                        "layout files: bundled Probhat.json and the synthetic layout derived from it"]


SESSION_RULE = ("TLC (MC_Session over Riti.tla) checks C01/C02/C06 on the transcript for ALL in-contract histories to depth %d with "
                "nondeterministic list data (%s distinct states), then emits every in-contract history of depth %d over the class alphabets "
                "(fixed: 8 key values incl. a key without assignment; phonetic: 8 characters incl. the character-less keypad keys; backspace, "
                "ctrl-backspace, commit first/last, finish, update-engine to a flipped option set or the other method) from 7 configurations; "
                "every history is replayed in the real engine with symbolic selection bytes / commit indices bound to the real list length; "
                "at every terminating event a brand-new context is forked and must answer identically from then on.  Non-trivial = "
                "histories in which at least one fork was compared.")


def session(run, sites, quick_depth=4, thorough_depth=5):
    run.sites = sites
    d_design = 6 if run.quick() else 7
    d_emit = quick_depth if run.quick() else thorough_depth
    # design level
    tlc, s = run_tlc_replay(run, "MC_Session_design", "MC_Session.tla",
                            dict(spec="Spec", constants={"Depth": d_design, "Emitting": "FALSE", "Family": '"mixed"', "MaxLen": 3},
                                 invariants=["C01_NoCrash", "C02_WellFormed", "C06_FreshWhenIdle", "C06_ShownOngoing", "C06_EmptyBsIdle"]),
                            run.pid, workers=8, threads=1)
    run.add(tlc, None)
    design_states = tlc["states"]
    for fam in ("fixed", "phonetic", "mixed"):
        tlc, s = run_tlc_replay(run, "MC_Session_" + fam, "MC_Session.tla",
                                dict(spec="Spec", constants={"Depth": d_emit, "Emitting": "TRUE", "Family": '"%s"' % fam, "MaxLen": 3},
                                     invariants=["Emit"]),
                                run.pid, workers=4, threads=8)
        run.add(tlc, s)
    run.rule = SESSION_RULE % (d_design, design_states, d_emit)
    run.assumptions += ["candidate lists are abstract in the model (length/preselection nondeterministic)",
                        "replay contexts use an empty database directory (cheap brand-new contexts); data-dependent paths are covered by the recorded-trace checks",
                        "the learned-selection store is held fixed: phonetic commits use the preselected index"]


SESSION_TRACE_RULE = ("  ||  impl -> spec: 12 x %d recorded random in-contract histories of 40-120 events (all 111 key codes, modifiers incl. stray high bits, valid selection "
                      "bytes, backspace / ctrl-backspace, commits inside the shown list, finish, update-engine while idle to a random configuration; both methods, both layouts, "
                      "random options, real dictionary) validated by TLC against Trace_Session with Focus=%s (the spec tracks the typed characters / the composed text itself)")


def session_trace(run, focus, site):
    rounds = 25 if run.quick() else 250
    tlc, s = run_record_validate(run, "session", "session", "Trace_Session.tla", run.pid, site, rounds, shards=12, focus=focus, unit="new", timeout=6000)
    run.add(tlc, s)
    run.rule += SESSION_TRACE_RULE % (rounds, focus)


SHADOW_RULE = ("  ||  impl -> spec, whole-system sessions with a shadow: 12 x %d recorded sessions of 14-27 words each (dictionary-guided words, emoticons, emoji "
               "names, wrapped and suffixed words typed key by key with corrections and moved highlights; learning commits, finish, ctrl-backspace, backspaces down to idle; "
               "update-engine while idle to another configuration, optionally after the user's auto-correct file was replaced; restarts over the same user-data "
               "directory; both methods, both layouts, random options, real dictionary).  At the first event after every boundary and at about half of the others the "
               "returned suggestion is compared with the one a brand-new context over the same configuration and user files returns for the surviving text; "
               "Trace_Session (Focus=%s) decides when the comparison is owed and rejects the trace at the first difference")


SYSTEM_RULE = ("  ||  whole system as one state machine (MC_System: configuration, method object replaced on a layout change, the user's auto-correct file with "
               "its stamp / loaded copy / memo, learned choices in memory and on disk; events: a word ended by finish or by a learning commit, the file edited / "
               "damaged / deleted, update-engine, restart - freely interleaved): TLC checks ShadowEquiv (in step with its files, the context answers every word "
               "like a context created now) and StoreInStep for all behaviours of %d events (%d states), emits every behaviour of %d events and %d random ones of "
               "%d events as scenarios: the history followed by four probe words (plain, emoji name, quoted, suffixed) vs a context created afterwards over the "
               "same directory typing the same probes; renderings must be equal")


def system_model(run, exhaustive=True):
    q = run.quick()
    run.sites = set(run.sites) | {"system"}
    base = {"KeepMemo": "FALSE", "GoneKeepsLoaded": "FALSE"}
    dd = 4 if q else 5
    tlc, _ = run_tlc_replay(run, "MC_System_design", "MC_System.tla",
                            dict(spec="Spec", constants=dict(base, Depth=dd, Emitting="FALSE"), invariants=["ShadowEquiv", "StoreInStep"]),
                            run.pid, workers=8, threads=1, timeout=7000)
    run.add(tlc, None)
    design_states = tlc["states"]
    de = 2 if q else 3
    if exhaustive:
        tlc, s = run_tlc_replay(run, "MC_System_emit", "MC_System.tla",
                                dict(spec="Spec", constants=dict(base, Depth=de, Emitting="TRUE"), invariants=["ShadowEquiv", "Emit"]),
                                run.pid, workers=4, threads=8, timeout=7000)
        run.add(tlc, s)
    num, ds = (400, 7) if q else (6000, 9)
    tlc, s = run_tlc_replay(run, "MC_System_sim", "MC_System.tla",
                            dict(spec="Spec", constants=dict(base, Depth=ds, Emitting="TRUE"), invariants=["ShadowEquiv", "Emit"]),
                            run.pid, workers=1, threads=8, tlc_args=["-simulate", "num=%d" % num, "-depth", str(ds + 3), "-seed", str(run.seed + (7 if run.pid == "C09" else 0))],
                            timeout=7000)
    run.add(tlc, s)
    run.rule += SYSTEM_RULE % (dd, design_states, de if exhaustive else 0, num, ds)


def shadow_trace(run, focus, site):
    rounds = 12 if run.quick() else 150
    tlc, s = run_record_validate(run, "session-shadow", "shadow", "Trace_Session.tla", run.pid, site, rounds, shards=12, focus=focus, unit="new", timeout=6000)
    run.add(tlc, s)
    run.rule += SHADOW_RULE % (rounds, focus)


def c01(run):
    session(run, {"panic"})
    session_trace(run, "C01", "panic")
    shadow_trace(run, "C01", "panic")
    # learning histories: commits of arbitrary candidates (emoji, raw text, wrapped words), re-typing with suffixes, restarts
    rounds = 40 if run.quick() else 300
    tlc, s = run_record_validate(run, "store", "store", "Trace_Store.tla", "C01", "panic", rounds, shards=8, focus="C01")
    run.add(tlc, s)
    run.rule += ("  ||  impl -> spec: 8 x %d rounds of the commit-heavy learning driver (see C09) validated against Trace_Store with Focus=C01: every typing / commit call returned" % rounds)
    # text shapes: a panic is C01's subject wherever it happens, so the text-level scenario families of C03 / C17 (punctuation runs,
    # quotes next to every punctuation class, both methods) and the real-data candidate corpora of C07 / C15 are run here as well,
    # counting only `panic` (site filter) / only the Panic action (Focus = C01)
    q = run.quick()
    tlc, s = run_tlc_replay(run, "MC_Split_punctruns", "MC_Split.tla",
                            dict(spec="Spec", constants={"MaxLen": 3 if q else 4, "Mode": '"punctruns"'}, invariants=["Emit"]), "C01", workers=4, threads=8)
    run.add(tlc, s)
    for m in ("phonetic", "fixed"):
        tlc, s = run_tlc_replay(run, "MC_Quote_" + m, "MC_Quote.tla",
                                dict(spec="Spec", constants={"MaxLen": 5 if q else 6, "Method": '"%s"' % m, "MaxLearn": 3 if q else 4}, invariants=["Emit"]), "C01", workers=4, threads=8)
        run.add(tlc, s)
    tlc, s = run_record_validate(run, "cands", "cands", "Trace_Cands.tla", "C01", "panic", 1, shards=12 if q else 16, focus="C01", unit="event", timeout=3000)
    run.add(tlc, s)
    tlc, s = run_record_validate(run, "fcands", "fcands", "Trace_Cands.tla", "C01", "panic", 1, shards=12 if q else 16, focus="C01", unit="event", timeout=6000)
    run.add(tlc, s)
    run.rule += ("  ||  text shapes and real data, panics only: the scenario families MC_Split 'punctruns' and MC_Quote (both methods) replayed with site filter `panic`, "
                 "and the candidate corpora of both methods (see C07 / C15) recorded and validated with Focus=C01 (only a panic event rejects)")


def c02(run):
    session(run, {"wf"})
    session_trace(run, "C02", "wf")
    shadow_trace(run, "C02", "wf")


def c06(run):
    session(run, {"flag", "fresh"})
    session_trace(run, "C06", "flag")
    shadow_trace(run, "C06", "fresh")


def c03(run):
    run.sites = {"translit", "panic"}
    q = run.quick()
    wl, al, cl = (6, 4, 2) if q else (7, 5, 3)
    for name, mode, n, workers in (("MC_Split_wrapped", "wrapped", wl, 4), ("MC_Split_any", "any", al, 4), ("MC_Split_chars", "chars", cl, 4),
                                   ("MC_Split_punctruns", "punctruns", 3 if q else 4, 4)):
        tlc, s = run_tlc_replay(run, name, "MC_Split.tla",
                                dict(spec="Spec", constants={"MaxLen": n, "Mode": '"%s"' % mode},
                                     invariants=["Structural", "WrappedAgrees", "ColonShrinks", "SmartQuoteLocal", "Emit"]),
                                "C03", workers=workers, threads=8)
        run.add(tlc, s)
    run.rule = ("TLC enumerates every class string (letter, digit, punctuation, quote, colon, back-tick, other symbol) up to length %d, checks "
                "ImplSplit = PropSplit on wrapped alphanumeric words plus structural invariants, and emits one scenario per string; the harness "
                "concretises each class (canonical / swept / random member, 2-3 variants), types the text and compares the lonely suggestion with "
                "okkhor(P)+okkhor(W)+okkhor(Q) (suggestions off, 2 configs); with suggestions on (3 configs: English/smart quotes/ANSI) the same "
                "transliteration must be a candidate modulo curling: class strings to length %d and EVERY string over the 94 typeable characters "
                "to length %d, and every run of punctuation / symbol characters around at most one letter or digit to length %d.  Non-trivial = every scenario "
                "with at least one transliteration comparison." % (wl, al, cl, 3 if q else 4))
    # impl -> spec: "the transliteration is always one of the candidates" on the real-data corpus of the candidate driver (dictionary-guided
    # spellings, auto-correct keys, suffixed and wrapped words, 4 option sets incl. ANSI): lists with many dictionary hits
    tlc, s = run_record_validate(run, "cands", "cands", "Trace_Cands.tla", "C03", "translit", 1, shards=12 if q else 16, focus="C03", unit="event", timeout=3000)
    run.add(tlc, s)
    run.rule += ("  ||  impl -> spec: the candidate corpus of C07 (dictionary-guided spellings, auto-correct keys, suffixed and wrapped words, emoticons, "
                 "names; English / smart quotes / ANSI option sets) validated against Trace_Cands with Focus=C03 (PropHasTranslit on every list)")
    # ... and inside whole sessions (the list option switched off and on by update-engine, other words in between): every list must
    # equal the one of a brand-new context, for which the clause is established above
    shadow_trace(run, "C03", "translit")
    run.assumptions += ["the transliteration function itself is the okkhor public parser (oracle named by the statement)",
                        "class uniformity is tested by the swept/random variants, not assumed; for non-wrapped strings the split of the transcript is the definition"]


def c17(run):
    run.sites = {"curl", "panic"}
    n = 5 if run.quick() else 7
    for m in ("phonetic", "fixed"):
        tlc, s = run_tlc_replay(run, "MC_Quote_" + m, "MC_Quote.tla",
                                dict(spec="Spec", constants={"MaxLen": n if m == "phonetic" else n, "Method": '"%s"' % m, "MaxLearn": 4 if run.quick() else 5}, invariants=["Emit"]),
                                "C17", workers=4, threads=8)
        run.add(tlc, s)
    tlc, s = run_tlc_replay(run, "MC_Split_design", "MC_Split.tla",
                            dict(spec="Spec", constants={"MaxLen": 5 if run.quick() else 6, "Mode": '"design"'},
                                 invariants=["Structural", "SmartQuoteLocal"]), "C17", workers=4, threads=1)
    run.add(tlc, None)
    run.rule = ("TLC enumerates every class string up to length %d over {letter, quote, other punctuation, colon, back-tick} (phonetic) / "
                "{consonant, quote, punctuation, colon} (fixed, bundled layout) containing a quote, computes the split that defines the wrapping and emits a "
                "scenario with paired contexts differing only in the smart-quote option (English on + ANSI off, and English off + ANSI on); the harness "
                "types 2 concretisations per string and requires: same kind/length/preselection; punctuation-only text and the raw typed text identical; "
                "every other candidate = the OFF candidate with the quotes of its leading/trailing punctuation curled (opening/closing).  "
                "SmartQuoteLocal is checked on the model for all class strings.  Phonetic method, strings to length %d with a non-empty word: the pair is "
                "also run with a learned choice (own user-data directory per side: type, commit another candidate than the preselected one, type again) - "
                "the second lists must relate in the same way, preselection included.  Non-trivial = every compared pair." % (n, 4 if run.quick() else 5))
    run.assumptions += ["the split defining 'wrapping' is the transcript's (Split.ImplSplit), the same for both contexts of a pair",
                        "contexts are pooled (suggestions on need the dictionary); a mismatch is confirmed on brand-new contexts before it is reported"]


def c05(run):
    run.sites = {"pure", "panic"}
    if run.quick():
        consts = {"MaxEdits": 3, "MaxPrior": 1, "Cfgs": '"quick"'}
    else:
        consts = {"MaxEdits": 4, "MaxPrior": 1, "Cfgs": '"all"'}
    tlc, s = run_tlc_replay(run, "MC_Memo", "MC_Memo.tla",
                            dict(spec="Spec", constants=consts, invariants=["MemoTransparent", "Emit", "EmitBs"]),
                            "C05", workers=4, threads=8, timeout=7000)
    run.add(tlc, s)
    run.rule = ("TLC enumerates targets P.base.suffix.Q (224 quick / 525 thorough texts from real bases incl. case-sensitive spellings, suffix keys, punctuation incl. colon, "
                "back-tick, quotes) x up to %d earlier words "
                "in the same context x a plainly typed prefix x every edit path of up to %d steps (next character / wrong character / backspace), checks "
                "MemoTransparent on the memo model, and emits each history whose surviving text is a non-empty prefix of the target as a pair: (long-lived warm "
                "context that has composed all earlier scenarios, with a second context of the same process used between the steps) vs (brand-new context typing "
                "the surviving text); the full renderings must be equal.  Non-trivial = every compared pair."
                % (consts["MaxPrior"], consts["MaxEdits"]))
    shadow_trace(run, "C05", "pure")
    run.assumptions += ["the brand-new-context rendering of a text is computed once per (configuration, text) and cached (it is deterministic)",
                        "learned-selection store empty and selection byte 0 throughout (held fixed, as the quantifier says)",
                        "warm contexts are rotated after 4000 steps; the replay file of a violation carries the whole history of the warm context"]


# transcript switch of MC_Update: TRUE = the pinned tree (a deleted auto-correct file leaves the loaded entries in place)
GONE_KEEPS = "FALSE"


def c11(run):
    run.sites = {"update", "panic"}
    deep = "FALSE" if run.quick() else "TRUE"
    tlc, s = run_tlc_replay(run, "MC_Update", "MC_Update.tla",
                            dict(spec="Spec", constants={"Deep": deep, "Twice": "FALSE", "GoneKeepsLoaded": GONE_KEEPS}, invariants=["UpdatedEquivFresh", "Emit"]),
                            "C11", workers=4, threads=8, timeout=7000)
    run.add(tlc, s)
    # two update-engine calls in a row (e.g. suggestions off, then on again) after an edit
    tlc, s2 = run_tlc_replay(run, "MC_Update_twice", "MC_Update.tla",
                             dict(spec="Spec", constants={"Deep": "FALSE", "Twice": "TRUE", "GoneKeepsLoaded": GONE_KEEPS}, invariants=["UpdatedEquivFresh", "Emit"]),
                             "C11", workers=4, threads=8, timeout=7000)
    run.add(tlc, s2)
    # method / option switches with composition state around them: MC_Session histories contain update events
    d = 4 if run.quick() else 5
    tlc, s = run_tlc_replay(run, "MC_Session_mixed", "MC_Session.tla",
                            dict(spec="Spec", constants={"Depth": d, "Emitting": "TRUE", "Family": '"mixed"', "MaxLen": 3},
                                 invariants=["Emit"]), "C11", workers=4, threads=8)
    run.add(tlc, s)
    run.sites |= {"fresh"}
    run.rule = ("TLC enumerates histories [typing before] [edits of the user auto-correct file] update-engine(new configuration) [typing after] over "
                "%s configurations (phonetic with different options, fixed with the bundled layout file and a file of the SAME NAME in another directory whose plain keys differ) and 4 words "
                "(one with a bundled auto-correct entry, one wrapped in quotes so that the smart-quote option shows), checks "
                "UpdatedEquivFresh on the memo/stamp model and emits every maximal history; the harness writes the file with explicit modification times, "
                "runs the history, creates a brand-new context with the new configuration over the same user files at the update point and compares the "
                "complete renderings of every later key.  MC_Session histories (depth %d) add update events between arbitrary composition events with "
                "fresh-context forks.  Non-trivial = histories with at least one compared continuation." % ("4" if run.quick() else "7", d))
    run.assumptions += ["edits of the auto-correct file: entries added / changed / removed, the file made unparsable, the file deleted - always with an advancing modification time",
                        "every configuration of a history uses the same data directory (the statement: same data directory)"]
    # impl -> spec: recorded random sessions with update-engine calls to random configurations (all helper options, number pad,
    # suggestions, both layout files, method switches); after an update every configuration-dependent conjunct is enforced
    # against the NEW configuration (Trace_Session, Focus = C11)
    session_trace(run, "C11", "update")
    shadow_trace(run, "C11", "update")
    system_model(run)


def apalache_store(run):
    """Optional: unbounded safety of the abstract store model by an inductive invariant (Apalache).  Not relied upon: a tool problem or a
    timeout is recorded and skipped; only a reported counterexample counts (as a model-level violation)."""
    out_dir = os.path.join(run.dir, "apalache")
    res = []
    for args in (["--init=Init", "--inv=IndInv", "--length=0"], ["--init=IndInit", "--inv=IndInv", "--length=1"], ["--init=IndInit", "--inv=Remembered", "--length=0"]):
        try:
            r = subprocess.run(["timeout", "300", "apalache-mc", "check", "--out-dir=" + out_dir] + args + ["StoreInd.tla"], cwd=stages.SPEC,
                               capture_output=True, text=True, timeout=400)
            ok = "EXITCODE: OK" in r.stdout
            bad = "EXITCODE: ERROR (12)" in r.stdout or "violation" in r.stdout.lower() and not ok
            res.append({"args": " ".join(args), "ok": ok})
            if bad:
                run.model_violations.append(("StoreInd(apalache)", " ".join(args), out_dir))
        except Exception as e:  # noqa: BLE001
            res.append({"args": " ".join(args), "ok": False, "skipped": str(e)[:100]})
    run.extra["apalache_inductive"] = res
    shutil.rmtree(out_dir, ignore_errors=True)
    # apalache leaves _apalache-out next to the spec when --out-dir is ignored
    shutil.rmtree(os.path.join(stages.SPEC, "_apalache-out"), ignore_errors=True)


def store_two_contexts(run):
    """Design observation outside C09's quantifier (one context and its restarts): with two live contexts over one directory the
    whole-map rewrite loses updates.  TLC must confirm NoLostUpdate for one context; the outcome for two is recorded, never an alarm."""
    obs = []
    for n in (1, 2):
        cfg = os.path.join(run.dir, "MC_Store2_%d.cfg" % n)
        write_cfg(cfg, spec="Spec", constants={"Contexts": n, "MaxSteps": 6}, invariants=["NoLostUpdate"])
        meta = os.path.join(run.dir, "meta-store2-%d" % n)
        r = subprocess.run(["timeout", "300", "tlc", "-workers", "2", "-checkpoint", "0", "-noGenerateSpecTE", "-metadir", meta, "-cleanup", "-config", cfg,
                            "MC_Store2.tla"], cwd=stages.SPEC, env=tlc_env(), capture_output=True, text=True)
        shutil.rmtree(meta, ignore_errors=True)
        violated = "Invariant NoLostUpdate is violated" in r.stdout
        done = "Model checking completed. No error has been found." in r.stdout
        obs.append({"contexts": n, "NoLostUpdate": "violated" if violated else "holds" if done else "undecided"})
        if n == 1 and not done:
            run.model_violations.append(("MC_Store2(Contexts=1)", "NoLostUpdate", cfg))
    run.extra["observations"] = [{"module": "MC_Store2", "what": "learned-selection store with several live contexts over one directory (whole-map rewrite): "
                                  "lost update outside C09's quantifier", "results": obs}]


def c09(run):
    run.sites = {"store", "panic"}
    tlc, s0 = run_tlc_replay(run, "MC_Split_store", "MC_Split.tla",
                             dict(spec="Spec", constants={"MaxLen": 6 if run.quick() else 7, "Mode": '"design"'},
                                  invariants=["Structural", "StoreRoundTrip"]), "C09", workers=4, threads=1)
    run.add(tlc, None)
    tlc, s1 = run_tlc_replay(run, "MC_Store", "MC_Store.tla",
                             dict(spec="Spec", constants={"StoreDerived": "FALSE", "MaxSteps": 8 if run.quick() else 10},
                                  invariants=["Remembered", "SurvivesRestart"]), "C09", workers=4, threads=1)
    run.add(tlc, None)
    apalache_store(run)
    store_two_contexts(run)
    rounds = 60 if run.quick() else 400
    tlc, s = run_record_validate(run, "store", "store", "Trace_Store.tla", "C09", "store", rounds, shards=8, focus="C09")
    run.add(tlc, s)
    run.rule = ("impl -> spec: 8 recorded sessions x %d rounds of the commit-heavy driver (real words with several candidates, optionally wrapped in "
                "punctuation / quotes / colon / back-tick, smart quotes and English on/off, random non-preselected commits, re-typing the same text, "
                "another wrapping, the word + a known suffix, restarts = new context over the same directory, store file inspected after every commit); "
                "TLC validates every trace against Trace_Store (learned map evolves by the spec's own KeyOf/StripCand/Join; each shown list must "
                "preselect the learned/joined candidate; committing the preselected index changes nothing; file always absent or valid).  "
                "Non-trivial = every round (each contains learning commits)." % rounds)
    shadow_trace(run, "C09", "store")
    system_model(run, exhaustive=False)
    run.assumptions += ["facts logged by the recorder: transliteration of the wrapping punctuation (okkhor oracle) and its curled form",
                        "the driver passes the preselected index it was last shown as selection byte (what a front-end does)"]


def c10(run):
    run.sites = {"fault", "panic"}
    n = 3 if run.quick() else 5
    invs = ["Robust", "LoadedIsOnDisk", "LosesAtMostNew", "SaveLeavesValid", "ReloadAsNew", "Emit"]
    tlc, s = run_tlc_replay(run, "MC_Fault", "MC_Fault.tla",
                            dict(spec="Spec", constants={"MaxSteps": n, "Focus": '"all"'}, invariants=invs),
                            "C10", workers=4, threads=8, timeout=7000)
    run.add(tlc, s)
    # the environment replaces the auto-correct file under a live context (damaged / deleted / restored), then re-loading
    n2 = 4 if run.quick() else 5
    tlc, s = run_tlc_replay(run, "MC_Fault_damage", "MC_Fault.tla",
                            dict(spec="Spec", constants={"MaxSteps": n2, "Focus": '"damage"'}, invariants=invs),
                            "C10", workers=4, threads=8, timeout=7000)
    run.add(tlc, s)
    # the missing / blocked directory appears while the context is alive, and a learning commit follows ("loses at most that one choice")
    n3 = 4 if run.quick() else 6
    tlc, s = run_tlc_replay(run, "MC_Fault_repair", "MC_Fault.tla",
                            dict(spec="Spec", constants={"MaxSteps": n3, "Focus": '"repair"'}, invariants=invs),
                            "C10", workers=4, threads=8, timeout=7000)
    run.add(tlc, s)
    run.extra["level"] = "model_checking"
    run.rule = ("(third instance: every event sequence of length %d in which the missing / blocked directory appears under the live context and that ends in a "
                "learning commit: the save completes and the store holds the choice)  " % n3)
    run.rule += ("TLC enumerates environments (selection file x auto-correct file in {absent, valid, empty, torn, wrongshape, emptyentries} x directory in "
                "{ok, missing, blocked}) x every event sequence of length %d over {new, type, learning commit, crash in the middle of a save, restart, "
                "update-engine}, checks Robust / LoadedIsOnDisk / LosesAtMostNew / SaveLeavesValid on the model and emits every scenario; the harness "
                "concretises torn as EVERY proper byte prefix of a store the engine itself wrote (all crash points of the non-atomic save), wrongshape as a "
                "16-document corpus (array, number, null, nested/non-string values, invalid UTF-8, BOM, trailing comma, blank), emptyentries as 5 documents, "
                "missing/blocked directory (path occupied by a regular file); no event may panic, a context over unreadable content must render 7 probe words "
                "(incl. suffix forms) exactly like one started with the files absent, a choice whose save failed must still be preselected in the same context, "
                "a completed save must leave a loadable file.  Non-trivial = scenarios with at least one differential or persistence comparison." % n)
    run.assumptions += ["complete prefix/corpus sweep once per environment and worker thread, rotating samples of 4 concretisations for further event sequences over it",
                        "the sandbox runs as root: 'not writable' is simulated by occupying the directory path with a regular file"]


CANDS_RULE = ("impl -> spec: the candidate driver types, in long-lived contexts under 4 phonetic option sets (English/smart quotes/ANSI), every single typeable "
              "character, %s two-character strings over the 94 typeable characters, %s bundled auto-correct keys, 40 real base words x %s suffix keys of "
              "suffix.json (after typing each base alone in the same context), the bases wrapped in brackets/quotes, all emoticons, %s English emoji names, and %s random "
              "words; every returned list is logged with facts from independent oracles (okkhor transliteration of every prefix/suffix, auto-correct JSONs, the whole "
              "dictionary scanned with the okkhor regex + own Levenshtein, suffix.json, emojicon tables, poriborton) and TLC validates each event against Candidates.tla "
              "with Focus=%s.  Non-trivial = every validated list event.")


def cands(run, focus, site):
    run.sites = {site}
    q = run.quick()
    tlc, s = run_record_validate(run, "cands", "cands", "Trace_Cands.tla", run.pid, site, 1, shards=12 if q else 16, focus=focus, unit="event",
                                 timeout=3000)
    run.add(tlc, s)
    run.rule = CANDS_RULE % (("1/6 of all" if q else "ALL 8836"), ("1/8 of the" if q else "all 2108"), ("~13 sampled" if q else "ALL 737"),
                             ("1/4 of the" if q else "all 1389"), ("150" if q else "3000"), focus)
    run.assumptions += ["facts are computed by the recorder for the word it proposes; the trace specification compares the proposal with its own split and skips "
                        "fact-based clauses when they differ (texts where colon / back-tick move the word boundary)",
                        "dictionary membership, regex match, edit distance, emoji tables and Bijoy encoding are oracle facts (outside TLA+)"]


FCANDS_RULE = ("impl -> spec (fixed method, bundled layout): the driver types through the inverse of the layout %s prefix (up to %d characters) of %s "
               "dictionary words, every Bengali emoji name (1007) and every emoticon by its raw key characters, wrapped in brackets / quotes / colon for a "
               "part, rotating over 6 option sets (traditional joining, smart quotes, English, ANSI); every list is logged with facts (dictionary membership and "
               "prefix relation of the cleaned candidate, own edit distance, emojicon tables, poriborton) and TLC validates each event against "
               "Candidates.tla with Focus=%s.  Non-trivial = every validated list event.")


def fcands(run, focus, site):
    q = run.quick()
    tlc, s = run_record_validate(run, "fcands", "fcands", "Trace_Cands.tla", run.pid, site, 1, shards=12 if q else 16, focus=focus, unit="event",
                                 timeout=6000)
    run.add(tlc, s)
    return FCANDS_RULE % ("every", 6 if q else 12, "1/97 of the" if q else "ALL 159k", focus)


def c15(run):
    run.sites = {"fixedlist"}
    run.rule = fcands(run, "C15", "fixedlist")
    # fixed-layout lists inside whole sessions (old vowel order with a waiting sign, options switched by update-engine, words typed again)
    shadow_trace(run, "C15", "fixedlist")
    design_fixedlist(run, ["FFirstIsWord", "FAtMostNine", "FNoRepeats", "FNonDecreasing", "FEnglishLast"], 2 if run.quick() else 3, 3 if run.quick() else 12)
    run.assumptions += ["dictionary facts from the JSON re-read by the harness; 'ignoring punctuation and non-joiners' = removing ASCII punctuation, danda and ZWNJ",
                        "the recorder proposes the word; the trace specification compares with its own split (':' is punctuation in fixed mode) and skips on disagreement"]


def c16(run):
    run.sites = {"ansi"}
    cands(run, "C16", "ansi")
    r1 = run.rule
    run.rule = r1 + "  ||  " + fcands(run, "C16", "ansi")
    dict_pass(run)
    # ANSI inside whole sessions: switched on and off by update-engine, words typed again afterwards, both methods
    shadow_trace(run, "C16", "ansi")
    design_candidates(run, ["AnsiGate"], 1, 2)
    design_fixedlist(run, ["FAnsiGate"], 1, 2)


def c18(run):
    run.sites = {"emoji"}
    cands(run, "C18", "emoji")
    r1 = run.rule
    run.rule = r1 + "  ||  " + fcands(run, "C18", "emoji")
    # emoji inside whole sessions (ANSI switched on and off by update-engine, contexts created in ANSI mode, words typed again)
    shadow_trace(run, "C18", "emoji")
    design_candidates(run, ["EmojiTableOrder", "NoEmojiBeforeExact"], 1, 3)
    design_fixedlist(run, ["FEmojiPrefix", "FEmojiAllIfRoom", "FEmoticonShown"], 2, 12)


def dict_pass(run):
    """C16 data-exhaustive pass: every dictionary word (and joined forms) through the pre-edit accessor of a returned suggestion."""
    q = run.quick()
    tlc, s = run_record_validate(run, "enc", "enc", "Trace_Cands.tla", run.pid, "ansi", 1, shards=16, focus="C16", unit="event", timeout=6000)
    run.add(tlc, s)
    run.rule += ("  ||  data pass: %s word of dictionary.json, the candidates of %s bundled lower-case auto-correct keys + suffix keys typed in a real ANSI context, and every "
                 "value (%s) the bundled layout can emit typed in a real fixed ANSI context, each through Suggestion::get_pre_edit_text: must not panic, must contain no "
                 "Bengali-block code point, must equal poriborton's encoding" % ("every 4th" if q else "EVERY", "1/6 of the" if q else "all", "singly and after ক" if q else "singly and in every pair"))


def design_candidates(run, invariants, maxdict, maxemoji):
    tlc, s = run_tlc_replay(run, "MC_Candidates", "MC_Candidates.tla",
                            dict(spec="Spec", constants={"MaxDict": maxdict, "MaxEmoji": maxemoji}, invariants=invariants),
                            run.pid, workers=12, threads=1, timeout=7000)
    run.add(tlc, None)
    run.rule += ("  ||  design level: MC_Candidates (transcript of list assembly: five sources, the Rank comparator, duplicate checks, stable insertion sort) checked "
                 "against %s for every multiset of <= %d dictionary facts over 4 text tokens x 3 distances, optional auto-correct, <= %d emoji, emoticon, coinciding raw "
                 "text, English / ANSI (%d states)" % (", ".join(invariants), maxdict, maxemoji, tlc["states"]))


def design_fixedlist(run, invariants, maxdict, maxemoji):
    tlc, s = run_tlc_replay(run, "MC_FixedList", "MC_FixedList.tla",
                            dict(spec="Spec", constants={"MaxDict": maxdict, "MaxEmoji": maxemoji, "AssumeData": "TRUE"}, invariants=invariants),
                            run.pid, workers=12, threads=1, timeout=7000)
    run.add(tlc, None)
    run.rule += ("  ||  design level: MC_FixedList (transcript of the fixed-layout list: typed word first-ranked, hits in table order, consecutive-only de-duplication, "
                 "emoticon / name emoji, comparator + stable sort, cut to nine / eight + raw text) checked against %s for every sequence of <= %d hits over 4 text tokens x 3 "
                 "distances, <= %d emoji, emoticon, raw text equal or not, English / ANSI (%d states); the data facts it assumes (ExactFirst, AdjacentDup) are checked on "
                 "the real dictionary by the recorder (event dictfacts)" % (", ".join(invariants), maxdict, maxemoji, tlc["states"]))


def c07(run):
    cands(run, "C07", "order")
    shadow_trace(run, "C07", "order")
    design_candidates(run, ["NoDuplicates", "AcFirst", "DictNonDecreasing", "TranslitAfterDict", "EnglishLast", "NoEmojiBeforeExact", "NeverEmpty",
                            "CmpTransitiveHere"], 2 if run.quick() else 3, 2 if run.quick() else 3)


def c08(run):
    cands(run, "C08", "justified")
    # the lists of a USED context (slips corrected between base and suffix, words typed again, re-configurations) equal those of a brand-new one,
    # for which the clauses are established above
    shadow_trace(run, "C08", "justified")


def c19(run):
    run.sites = {"ffi", "panic"}
    q = run.quick()
    lines1 = os.path.join(run.dir, "ffi_lines_exhaustive.json")
    lines2 = os.path.join(run.dir, "ffi_lines_sim.json")
    consts = {"Depth": 6 if q else 7, "MaxCfg": 1, "MaxCtx": 1, "MaxSug": 2, "MaxStr": 1, "AllSetters": "FALSE"}
    tlc, s = run_tlc_replay(run, "MC_FFI", "FFI.tla", dict(spec="Spec", constants=consts, invariants=["ShownIsLive", "Emit"]), "C19",
                            workers=4, threads=8, env_extra={"RV_SAVE_LINES": lines1, "RV_SAVE_MAX": "400" if q else "4000"}, timeout=7000)
    run.add(tlc, s)
    consts2 = {"Depth": 14, "MaxCfg": 2, "MaxCtx": 2, "MaxSug": 3, "MaxStr": 2, "AllSetters": "TRUE"}
    tlc, s = run_tlc_replay(run, "MC_FFI_sim", "FFI.tla", dict(spec="Spec", constants=consts2, invariants=["ShownIsLive", "Emit"]), "C19",
                            workers=1, threads=8, tlc_args=["-simulate", "num=%d" % (300 if q else 3000), "-depth", "16", "-seed", str(run.seed)],
                            env_extra={"RV_SAVE_LINES": lines2, "RV_SAVE_MAX": "300" if q else "3000"}, timeout=7000)
    run.add(tlc, s)
    # memory-error verdict: the same replay binary under valgrind memcheck on the saved sequences
    errors = 0
    vg_runs = []
    for f in (lines1, lines2):
        t0 = time.time()
        r = subprocess.run(["valgrind", "--leak-check=full", "--errors-for-leak-kinds=definite,indirect", "--error-exitcode=9", "-q",
                            stages.RV, "replay-file", "--property", "C19", "--in", f], capture_output=True, text=True,
                           env=dict(stages.rv_env(), RV_NO_CRASH_HANDLER="1"), timeout=7000)
        n = sum(1 for _ in open(f))
        vg_runs.append({"file": os.path.basename(f), "sequences": n, "rc": r.returncode, "wall_s": round(time.time() - t0, 1)})
        if r.returncode == 9:
            errors += 1
            rp = os.path.join(run.replay_dir, "valgrind-%s.txt" % os.path.basename(f))
            os.makedirs(run.replay_dir, exist_ok=True)
            open(rp, "w").write(r.stderr[-20000:])
            shutil.copy(f, os.path.join(run.replay_dir, os.path.basename(f)))
            run.summaries.append({"property": "C19", "behaviours": 0, "events": 0, "compared": 0, "nontrivial": 0, "violation_count": 1,
                                  "violations": [{"site": "ffi", "what": "valgrind memcheck reports an invalid access or a leak while replaying %d call sequences: %s"
                                                  % (n, " ".join(r.stderr.split()[:60])), "replay": rp, "case": {"lines": os.path.basename(f)}}],
                                  "drift_count": 0, "drift_samples": [], "samples": [], "notes": {}})
        elif r.returncode != 0:
            raise ToolError("valgrind run failed rc=%s: %s" % (r.returncode, r.stderr[-1500:]))
    run.extra["valgrind_runs"] = vg_runs
    run.extra["level"] = "exploration"
    run.rule = ("TLC enumerates ALL in-contract call orders of the 33 exported functions to depth %d (1 config, 1 context, 2 suggestions, 1 string live) and random "
                "life cycles of 14 calls (2 configs, 2 contexts, 3 suggestions, 2 strings, all setters) from FFI.tla; each sequence is executed through the extern \"C\" "
                "symbols: every returned string must be NUL-terminated valid UTF-8, equal to the Rust accessor's value on the same Suggestion and to the snapshot taken "
                "when the suggestion was returned (also after its context moved on or was freed); remaining handles are freed at the end; %d+%d of the sequences are "
                "re-executed under valgrind memcheck (invalid access / definite+indirect leaks fail the run).  Non-trivial = every executed sequence; distinct by "
                "construction (TLC states)." % (consts["Depth"], vg_runs[0]["sequences"], vg_runs[1]["sequences"]))
    run.assumptions += ["the memory-error verdict is valgrind's (outside TLA+); TLA+ contributes the call-order quantifier and the ownership/independence/equality clauses",
                        "the harness declares the exported symbols itself and links them from the rlib (same code as the static library)"]


PROPS = {"C01": c01, "C19": c19, "C07": c07, "C08": c08, "C15": c15, "C16": c16, "C18": c18, "C09": c09, "C10": c10, "C11": c11, "C03": c03, "C05": c05, "C17": c17, "C02": c02, "C06": c06, "C04": c04, "C12": c12, "C13": c13, "C14": c14}


def replay_file(run, path):
    """Re-executes one stored violation against /repo's current tree: exit 1 (with a VIOLATION line) if it still fails."""
    import re as _re
    base = os.path.basename(path)
    if path.endswith(".ndjson"):
        module = "Trace_Store.tla" if base.startswith("store") else "Trace_Session.tla" if base.startswith("session") else "Trace_Cands.tla"
        cfg = os.path.join(run.dir, "replay.trace.cfg")
        write_cfg(cfg, spec="Spec", postcondition="Accepted")
        env = tlc_env()
        env.update({"TRACE": os.path.abspath(path), "FOCUS": run.pid, "VERIF_GEN": os.path.join(stages.WORK, "gen")})
        r = subprocess.run(["timeout", "600", "tlc", "-workers", "1", "-noGenerateSpecTE", "-metadir", os.path.join(run.dir, "meta-replay"), "-cleanup",
                            "-config", cfg, module], cwd=stages.SPEC, env=env, capture_output=True, text=True)
        m = _re.search(r'<<"TRACE-RESULT", (\d+), (\d+)>>', r.stdout)
        print("NOTE: a recorded trace is validated as recorded; to re-record against the current tree run the check itself")
        for l in r.stdout.split("\n"):
            if "TRACE-" in l:
                print(l)
        if m and m.group(1) == m.group(2):
            print("replay: the specification accepts this trace")
            return 0
        print("VIOLATION property=%s replay=%s" % (run.pid, path))
        return 1
    doc = json.load(open(path, encoding="utf-8"))
    case = doc.get("case", {})
    beh = case.get("behaviour") or case.get("script")
    if beh is None:
        print(json.dumps(doc, ensure_ascii=False, indent=1)[:4000])
        print("replay: this record has no executable behaviour (e.g. a point of the exhaustive layout pass); shown above")
        return 0
    if "script" in case and "vars" in case:
        # the concretised variables of the failing variant become literals
        beh = dict(beh)
        beh["vars"] = {k: list(v) for k, v in case["vars"].items()}
        beh["variants"] = 1
    lines = os.path.join(run.dir, "replay.json")
    open(lines, "w", encoding="utf-8").write(json.dumps(beh, ensure_ascii=False) + "\n")
    r = subprocess.run([stages.RV, "replay-file", "--property", run.pid, "--in", lines], capture_output=True, text=True, env=stages.rv_env(), timeout=900)
    summ = None
    for l in r.stdout.split("\n"):
        if l.startswith("RV-SUMMARY "):
            summ = json.loads(l[len("RV-SUMMARY "):])
    if summ is None and "RV-CRASH" in r.stdout:
        print("VIOLATION property=%s replay=%s" % (run.pid, path))
        print("   memory: the process was killed by a fatal signal while the behaviour was executed: " + " ".join(r.stderr.split()[-20:]))
        return 1
    if summ is None:
        print("TOOL-ERROR: replay produced no summary: " + r.stderr[-500:])
        return 2
    if summ["violation_count"]:
        for v in summ["violations"][:3]:
            print("VIOLATION property=%s replay=%s" % (run.pid, path))
            print("   " + v["site"] + ": " + v["what"][:400])
        return 1
    print("replay: the behaviour no longer violates the property on the current tree (%d events)" % summ["events"])
    return 0
