"""Per-property stages.  Each function receives a stages.Run and appends TLC results / harness summaries."""
import json, os
from stages import *  # noqa: F401,F403
import stages


def c12(run):
    run.rule = ("TLC enumerates every history of key values/backspaces up to the depth over the class alphabet "
                "(24 values incl. multi-code-point keys) x 16 helper settings; each maximal history is replayed through "
                "the real engine (synthetic layout, suggestions off) and the pre-edit text after EVERY event must be one "
                "the specification (PropKeySet/PropBackspace) allows.  Non-trivial = the expected text is non-empty.")
    depth = 3 if run.quick() else 4
    tlc, s = run_tlc_replay(run, "MC_Fixed", "MC_Fixed.tla",
                            dict(spec="Spec", constants={"Depth": depth, "Alphabet": '"full"'},
                                 invariants=["ImplRefinesProp", "AutoVowelInv", "Emit"]),
                            "C12", workers=4, threads=8)
    run.add(tlc, s)
    run.assumptions += ["class representatives stand for their class (one consonant etc.); edge characters on which "
                        "riti's tables and the Unicode chart differ are outside the normative alphabet",
                        "bounded exhaustiveness: depth %d" % depth]


PROPS = {"C12": c12}


def replay_file(run, path):
    doc = json.load(open(path, encoding="utf-8"))
    print(json.dumps(doc, ensure_ascii=False, indent=1)[:4000])
    return 0
