BASELINE_OFF = "cd /repo && cargo test --workspace --no-fail-fast --offline"
HOOKS = {
    "guard": "riti_verif",
    "enable": "unused - no source hooks: every observation is made through the public API / exported C symbols",
    "baseline_off_cmd": BASELINE_OFF,
    "source_commits": [],
    "add_only": True,
}
NOTES = ("Every check: bin/check <ID> --tier quick|thorough. It regenerates work/gen from /repo (riti.h key codes, layouts), "
         "rebuilds the harness against /repo's working tree, runs TLC on the property's MC_* instances piped into the replay "
         "harness and/or records real runs and validates them with TLC trace specifications, then writes evidence/<ID>.json. "
         "known_findings.json lists genuine defects (fixed: entries suppress nothing).")
MC = "model_checking"
CHECKS = {
    "C12": dict(category=MC, design_ref="DESIGN.md 5 C12",
                technique="TLC bounded model checking of FixedCompose (PropKeySet) + replay of every TLC behaviour through the real engine",
                text="TLC enumerates all key/backspace histories to depth 3 (quick) / 4 (thorough) over a class alphabet x 16 helper settings, checks the "
                     "transcript against the normative priority chain, and every emitted history is replayed in the real engine with the pre-edit text "
                     "compared after each event; bounded-exhaustive over the stated alphabet, not a proof",
                note="class representatives; edge characters on which riti's tables and the Unicode chart differ are non-normative; TLC, harness executor, rustc trusted"),
    "C13": dict(category=MC, design_ref="DESIGN.md 5 C13",
                technique="TLC bounded model checking of ImplReph against PropRephSet (syllable grammar) + replay of every reph-ending history through the real engine",
                text="TLC enumerates all histories to depth 5 (quick) / 6 (thorough; 38M states) over the 12 values the reph scan distinguishes x 8 settings, "
                     "checks conservation for every reachable text and exact placement for every text matching the syllable grammar; every history ending in "
                     "the reph key is replayed in the real engine and the pre-edit text compared after each event",
                note="placement clause only for grammar-matching texts (statement: 'orthographically well-formed'); bounded depth; TLC, harness executor, rustc trusted"),
}
NOT_APPLICABLE = {}
