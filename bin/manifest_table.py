BASELINE_OFF = "cd /repo && cargo test --workspace --no-fail-fast --offline"
HOOKS = {
    "guard": "riti_verif",
    "enable": "unused - no source hooks: every observation is made through the public API / exported C symbols",
    "baseline_off_cmd": BASELINE_OFF,
    "source_commits": [],
    "add_only": True,
}
NOTES = ("Every check: bin/check <ID> --tier quick|thorough. It regenerates work/gen from /repo (riti.h key codes, layouts), "
         "rebuilds the harness against /repo's working tree, runs TLC on the property's MC_* instances piped into the replay "
         "harness and/or records real runs and validates them with TLC trace specifications, then writes evidence/<ID>.json. "
         "known_findings.json lists genuine defects (fixed: entries suppress nothing).")
MC = "model_checking"
SESSION_TXT = ("TLC checks the context state machine Riti.tla (both methods, session logic transcribed; candidate data abstract and nondeterministic) "
               "for all in-contract histories to depth 6/7, then emits every history of depth 4/5 over class alphabets from 7 configurations for replay in the "
               "real engine with symbolic selection/commit arguments bound to the real list lengths")
CHECKS = {
    "C01": dict(category=MC, design_ref="DESIGN.md 5 C01",
                technique="TLC model checking of Riti.tla (in-contract language as a state machine) + replay of every generated history through the real engine under catch_unwind",
                text=SESSION_TXT + "; a panic or a call over the time budget on any in-contract event is a violation. Recorded runs (impl -> spec, Trace_Session / Trace_Store with focus C01: dictionary-guided and random sessions over all 111 key codes, both methods, learning commits and restarts) add depth; the recorder also presses every one of the 111 keys 40 times in a row after a short start (long compositions) in both methods; a call that does not return within the watchdog budget is reported like a panic, a fatal signal as a violation with site memory.; the whole-system shadow sessions (realistic words with corrections, learning commits, re-configurations, restarts) are validated with Focus=C01 as well",
                note="bounded depth and class alphabets; replay contexts for the TLC histories run without the database; TLC, harness executor trusted"),
    "C02": dict(category=MC, design_ref="DESIGN.md 5 C02",
                technique="TLC model checking of PropWellFormed on Riti.tla + replay with every returned suggestion fully read out (both accessors, every index)",
                text=SESSION_TXT + "; every returned suggestion is read out completely (length, preselected index, auxiliary text = the spec's composition, every candidate and pre-edit text). "
                     "Known finding F05 (echoed selection byte on punctuation keys) is carved out explicitly in the invariant and in known_findings.json. A directed family presses every one of the 111 keys with the LAST valid index of a list of two or more candidates as selection byte (both methods, real dictionary): the next list may be shorter and its preselected index must lie inside it.",
                note="selection bytes are always bound inside the previously returned list (the statement's proviso); fixed-mode auxiliary text compared against the descriptive transcript (drift, not violation)"),
    "C05": dict(category=MC, design_ref="DESIGN.md 5 C05",
                technique="TLC model checking of the memo model (MemoTransparent) over all edit paths + paired replay: warm/edited/interleaved context vs brand-new context",
                text="TLC enumerates 300 target texts x earlier words x typed prefix x all edit paths (3 steps quick / 4 thorough) and checks on the memo model that the prefixes the "
                     "suffix path looks up are in the memo exactly as in a fresh context; ~100k (quick) histories are replayed as pairs on the real engine - a long-lived warm "
                     "context vs a brand-new context typing the surviving text - and the complete renderings compared; a second context of the same process (same configuration, no database directory, or other options) types the same characters just BEFORE the main one, and the brand-new reference comes from an isolated process per configuration. Whole-system shadow sessions (impl -> spec, Trace_Session clause Shadow, Focus=C05): recorded realistic sessions of one live context (dictionary-guided words with corrections, learning commits, update-engine to other configurations after edits of the user's auto-correct file, restarts, words typed again later) in which the returned suggestion is compared with the one a brand-new context over the same configuration and files gives for the surviving text; the trace specification decides when the comparison is owed",
                note="store and selection byte held fixed; fresh renderings cached per (configuration, text); bounded edit depth; TLC, harness executor trusted"),
    "C06": dict(category=MC, design_ref="DESIGN.md 5 C06",
                technique="TLC model checking of PropFreshWhenIdle / flag invariants on Riti.tla + differential replay: at every terminating event a brand-new context is forked and compared on the whole continuation",
                text=SESSION_TXT + "; the statement's flag rules are checked at every event and, at every terminating event, a brand-new context with the same configuration is forked; "
                     "used context and forks must render identically for the rest of the history (the configurations switch on the options that reveal each hidden piece of state). Whole-system shadow sessions (impl -> spec, Trace_Session clause Shadow, Focus=C06): recorded realistic sessions of one live context (dictionary-guided words with corrections, learning commits, update-engine to other configurations after edits of the user's auto-correct file, restarts, words typed again later) in which the returned suggestion is compared with the one a brand-new context over the same configuration and files gives for the surviving text; the trace specification decides when the comparison is owed",
                note="store held fixed (no learning commits); brand-new contexts are created with an empty database directory; bounded depth"),
    "C03": dict(category=MC, design_ref="DESIGN.md 5 C03",
                technique="TLC model checking of Split.tla (ImplSplit = PropSplit on wrapped words) + TLC-generated scenarios replayed with the okkhor parser as transliteration oracle",
                text="TLC enumerates every class string to length 6/7 (wrapped words), 4/5 (arbitrary class strings) and every string over the 94 typeable characters to "
                     "length 2/3, checks the split on the model and emits one scenario per string; the harness concretises, types the text through key events and "
                     "compares with okkhor(P)+okkhor(W)+okkhor(Q): equality with suggestions off, membership (modulo curling) with suggestions on under 3 option sets; a fourth instance ('punctruns') enumerates every run of "
                     "punctuation / symbol characters around at most one letter or digit to length 3/4 and runs of one repeated character to length 8 (the multi-character Avro patterns made of punctuation)",
                note="transliteration itself is the okkhor public parser (oracle by definition); contexts with suggestions on are pooled and a mismatch is confirmed on brand-new contexts"),
    "C04": dict(category=MC, design_ref="DESIGN.md 5 C04",
                technique="TLC exhaustive enumeration of Layout.Expected over the complete key space + exhaustive comparison of the real engine against the emitted table",
                text="the space 65536 codes x 11 modifier patterns x numpad x 2 layouts is finite and enumerated completely on both sides: TLC (2.9M states) "
                     "checks the statement's consequences on Layout.Expected and emits the table; the harness presses every point on the real engine and "
                     "compares text, emptiness and session flag (exhaustive: true); a hidden-state probe and recorded sessions validated by Trace_Session (focus C04) check that an inert event also leaves no trace in what follows; the table is also checked on contexts created with the other "
                     "number-pad setting (same / other layout file) and re-configured while idle, and inside a word: every key twice in a row under every pair of modifier patterns",
                note="key-name -> layout-entry naming convention (bin/gen.py) transcribed from riti.h names; two layout files; TLC JSON modules, harness executor trusted"),
    "C07": dict(category=MC, design_ref="DESIGN.md 5 C07",
                technique="TLC trace validation of recorded candidate lists against Candidates.tla (PropOrderPhonetic) with facts from independent oracles",
                text="every list the real engine returns for a corpus (all 1-char strings, 1/6 or all 2-char strings over the 94 typeable characters, auto-correct keys, base x suffix "
                     "words, wrapped words, emoticons, emoji names, random words; 4 option sets) is logged with oracle facts and TLC decides the order relation clause by clause: "
                     "auto-correct first, non-decreasing admissible distances (greedy over the set of justifications), transliteration after dictionary words, English last, no emoji "
                     "before an exact dictionary hit, no duplicates. MC_Candidates model-checks the list assembly (sources, four-variant comparator, duplicate check, stable sort) against the same relation for every small multiset of source facts The corpus includes dictionary-guided spellings (dictionary words written back in Latin letters and kept when the okkhor pattern matches): every word a table lists more than once, a sample of the others, and bases for every final character of the dictionary x one suffix key per initial vowel sign.",
                note="facts (dictionary+regex membership, Levenshtein, auto-correct, emoji tables, transliteration) are oracle-computed outside TLA+; quick tier samples the corpus"),
    "C08": dict(category=MC, design_ref="DESIGN.md 5 C08",
                technique="TLC trace validation against Candidates.tla (PropJustified, PropSuffixComplete with Store.Join) with oracle facts incl. the lists offered for each base",
                text="same recorded corpus; the recorder types every base (each split of the word into base + suffix key) alone in the same context first and logs what was offered; TLC "
                     "computes the joined forms with the statement's joining rules and requires every candidate to be justified and every due joined form to be present",
                note="completeness clause for bases starting with a lower-case letter (riti selects dictionary tables by it; other bases contribute their auto-correct entry only); oracle facts outside TLA+"),
    "C09": dict(category=MC, design_ref="DESIGN.md 5 C09",
                technique="TLC trace validation (impl -> spec): recorded commit/restart/re-typing sessions of the real engine checked against Trace_Store (Store.tla: KeyOf, StripCand, Join)",
                text="8 x 60 (quick) / 8 x 400 (thorough) recorded rounds of a commit-heavy driver (real words, META wrapping, smart quotes and English on/off, restarts over the same "
                     "directory, suffixed re-typing, file inspected after each commit) are validated by TLC: the learned map is spec state that evolves by the spec's own rules, every "
                     "shown list must preselect the learned (or correctly joined) candidate, committing the preselected index changes nothing, the file is always absent or valid. "
                     "MC_Split checks the text-level round trip (KeyOf / StripCand / re-wrapping) on all class strings; MC_Store model-checks the store as a state machine (memory, file, restart, derived entries) against Remembered / SurvivesRestart, and StoreInd discharges the same invariant inductively with Apalache when it is available in time. Whole-system shadow sessions (impl -> spec, Trace_Session clause Shadow, Focus=C09): recorded realistic sessions of one live context (dictionary-guided words with corrections, learning commits, update-engine to other configurations after edits of the user's auto-correct file, restarts, words typed again later) in which the returned suggestion is compared with the one a brand-new context over the same configuration and files gives for the surviving text; the trace specification decides when the comparison is owed. MC_System (the context with its per-user files as one state machine: learning commits, file edits, update-engine and restarts freely interleaved; invariant ShadowEquiv) is model-checked and random behaviours of 7/9 events are replayed against a context created afterwards over the same directory",
                note="recorder facts: okkhor transliteration of every prefix/suffix of the typed text; statement scope 'same text typed again'; echoed selection byte on punctuation keys accepted (F05)"),
    "C10": dict(category=MC, design_ref="DESIGN.md 5 C10",
                technique="TLC model checking of the environment/fault model MC_Fault + replay of every fault scenario with exhaustive concretisation of torn files (every byte prefix)",
                text="TLC enumerates file states x directory states x event sequences (new, type, learning commit, crash in the middle of a save, restart, update) and checks the robustness "
                     "invariants; the harness replays every scenario with torn = every proper byte prefix of an engine-written store, wrong-shape and empty-entry corpora, missing / blocked "
                     "directory: nothing may panic, unreadable = absent (differential on 7 probe words), failed save keeps the choice in memory, completed save leaves a loadable file; a second instance lets the environment replace / damage / delete the auto-correct file under a live context and demands that re-loading answers like a context created now (ReloadAsNew)",
                note="root sandbox: unwritable directory simulated by a regular file at its path; complete sweeps once per environment and worker, samples afterwards"),
    "C11": dict(category=MC, design_ref="DESIGN.md 5 C11",
                technique="TLC model checking of UpdatedEquivFresh on the memo/stamp model + paired replay: updated context vs context created fresh at the update point",
                text="TLC enumerates typing / auto-correct-file edits / update-engine / typing histories over 4 (quick) or 7 (thorough) configurations, checks the invariant on "
                     "the model (it finds the stale-memo counterexample on the pinned transcript in 4 steps) and emits every maximal history; the harness replays each with "
                     "explicit file mtimes against a brand-new context created with the new configuration over the same files; edits add / change / remove entries, make the file unparsable or delete it; a second instance performs two updates in a row (incl. suggestions switched off and on again); MC_Session histories add updates in the middle of arbitrary event sequences; recorded sessions with update-engine calls to random configurations and directed single-option flips (every helper option, number pad, "
                     "suggestion switch, both directions) are validated by Trace_Session with Focus=C11: after an update every configuration-dependent conjunct is enforced against the new configuration. Whole-system shadow sessions (impl -> spec, Trace_Session clause Shadow, Focus=C11): recorded realistic sessions of one live context (dictionary-guided words with corrections, learning commits, update-engine to other configurations after edits of the user's auto-correct file, restarts, words typed again later) in which the returned suggestion is compared with the one a brand-new context over the same configuration and files gives for the surviving text; the trace specification decides when the comparison is owed (incl. every single option flipped by update-engine and back around the same word). MC_System states update = new for the whole system (ShadowEquiv), is model-checked to 4/5 events and replayed: all behaviours of 2/3 events, random ones of 7/9",
                note="edits = content change, damage or deletion with newer mtime; bounded number of edits/words; TLC, harness executor trusted"),
    "C12": dict(category=MC, design_ref="DESIGN.md 5 C12",
                technique="TLC bounded model checking of FixedCompose (PropKeySet) + replay of every TLC behaviour through the real engine",
                text="TLC enumerates all key/backspace histories to depth 3 (quick) / 4 (thorough) over a class alphabet x 16 helper settings, checks the "
                     "transcript against the normative priority chain, and every emitted history is replayed in the real engine with the pre-edit text "
                     "compared after each event; a second instance goes deeper over a small alphabet, a third sweeps EVERY member of every class the rules name (107 values incl. all 30 punctuation marks) as pairs (thorough: followed by one chain-level value), and recorded random fixed-layout sessions over all key codes are validated by Trace_Session (focus C12); bounded-exhaustive over the stated alphabets, not a proof",
                note="class representatives; edge characters on which riti's tables and the Unicode chart differ are non-normative; TLC, harness executor, rustc trusted"),
    "C13": dict(category=MC, design_ref="DESIGN.md 5 C13",
                technique="TLC bounded model checking of ImplReph against PropRephSet (syllable grammar) + replay of every reph-ending history through the real engine",
                text="TLC enumerates all histories ending in the reph key to depth 5 (quick) / 6 (thorough) over the 12 values the reph scan distinguishes x 16 settings, and to depth 4 / 5 over a class sweep "
                     "(all ten vowel signs, anusvara, visarga, khanda-ta, digit: 25 values) and to depth 4 over every one of the 36 consonants, "
                     "checks conservation for every reachable text and exact placement for every text matching the syllable grammar; every history ending in "
                     "the reph key is replayed in the real engine and the pre-edit text compared after each event; the ranges include the old vowel-sign order (sign waiting / sign placed before the reph arrives); a fourth instance generates histories from the syllable grammar itself (conjuncts of up to 6/8 members joined by hasanta or the ro-fola / zo-fola keys, optional sign and chandrabindu, <= 9/11 keys)",
                note="placement clause only for grammar-matching texts (statement: 'orthographically well-formed'); bounded depth; TLC, harness executor, rustc trusted"),
    "C14": dict(category=MC, design_ref="DESIGN.md 5 C14",
                technique="TLC product-machine model checking (typewriter order/option on vs Unicode order/option off) + paired replay of every generated word in two real contexts",
                text="TLC builds every word of <= 2 syllables from the syllable grammar (9 onsets quick / 16 thorough, all ten vowel signs, both second halves of AU, "
                     "chandrabindu, independent vowel, punctuation, digit) x 16 helper settings and checks OldOrderEquiv and the waiting-sign clauses on the transcript; "
                     "each word is typed both ways into two real contexts and the texts compared after every syllable, plus the waiting-sign clauses on the real engine (end of a word, start of a word, brand-new context); a consonant sweep puts every one of the 36 consonants alone and inside a conjunct as second syllable",
                note="only grammar-generated words (behaviour on ill-formed key sequences is descriptive); bounded word length; TLC, harness executor trusted"),
    "C15": dict(category=MC, design_ref="DESIGN.md 5 C15",
                technique="TLC trace validation of recorded fixed-layout lists against Candidates.tla (PropFixedList) with dictionary facts",
                text="prefixes (up to 6/12 characters) of 1/97 (quick) or all (thorough) dictionary words, every Bengali emoji name and every emoticon are typed through the inverse of the "
                     "bundled layout, wrapped or not, under 6 option sets; TLC checks: first = composed text with curling (split decided by Split.tla), completions are dictionary words "
                     "with the typed prefix, non-decreasing distance, at most nine, no repeats, raw key text last when English is on. MC_FixedList model-checks the list assembly (consecutive-only de-duplication, comparator, stable sort, cut) against the same clauses; the data facts it assumes are checked on the real dictionary (event dictfacts); every prefix of every duplicated dictionary entry and of every dictionary word containing a non-Bengali character is always typed, and every ASCII punctuation key of the layout inside dictionary prefixes; every third item is also typed with a correction (another key and a backspace / a backspace and the last value again / backspaces down to the first code point and the rest again) and every list on the way validated (only the raw-key clause is waived after a backspace)",
                note="dictionary facts and edit distance are oracle facts; cleaning = removing ASCII punctuation, danda, ZWNJ"),
    "C16": dict(category=MC, design_ref="DESIGN.md 5 C16",
                technique="TLC trace validation (PropAnsi / FPropAnsi / Enc) of recorded lists in both methods + data-exhaustive encoding pass over dictionary.json",
                text="every recorded phonetic and fixed list (C07/C15 corpora, ANSI on and off) is checked for the gate (no emoji / emoticon / raw English in ANSI mode) and for the pre-edit "
                     "relation (Bijoy encoding without Bengali code points / identity; on every other text of the ANSI configurations the recorder passes another valid selection byte than the preselected one); every (4th) dictionary word, candidates of auto-correct key + suffix words and every layout value "
                     "go through the real pre-edit accessor in ANSI mode; MC_Candidates checks AnsiGate on the assembly model. Known finding F18 (dependency panics on U+09C4) is accepted explicitly for exactly those code points",
                note="the encoding itself is poriborton's public function (oracle named by the statement); emoji-ness from the emojicon tables"),
    "C17": dict(category=MC, design_ref="DESIGN.md 5 C17",
                technique="TLC enumeration of class strings with Split.tla deciding the wrapping + paired replay (option on/off) with the spec's curling relation per candidate",
                text="TLC enumerates every quote-containing class string to length 5/7 in both methods, decides word/wrapping with Split.tla and emits paired scenarios "
                     "(contexts differing only in the option, two settings of English/ANSI); the harness checks same kind/length/preselection, untouched raw text and "
                     "punctuation-only text, and the exact curled form of every other candidate; SmartQuoteLocal is model-checked for all class strings; phonetic pairs are also run with a learned choice (own user-data directory per side: type, commit another candidate, type again; strings to length 4/5)",
                note="split of the transcript defines the wrapping for both sides of a pair; pooled contexts with confirmation on brand-new contexts"),
    "C18": dict(category=MC, design_ref="DESIGN.md 5 C18",
                technique="TLC trace validation (PropEmoji / FPropEmoji) over the complete emojicon tables, typed in the method(s) that can type them",
                text="all 330 emoticons (both methods), 1/4 or all English emoji names (phonetic) and all 1007 Bengali names (fixed) are typed, bare and wrapped; TLC requires the emoticon's "
                     "emoji and literal text, and the name's emoji as a subsequence in table order wrapped like the word. Known finding F16 (more than eight emoji do not fit the nine-candidate "
                     "list) is accepted explicitly; F17 (unstable sort) was fixed; MC_Candidates checks EmojiTableOrder on the assembly model",
                note="tables via emojicon's public API (feature internal); non-emoji order is covered by C07/C15"),
    "C19": dict(category="exploration", design_ref="DESIGN.md 5 C19",
                technique="TLC enumeration/simulation of FFI.tla call orders + execution through the exported C symbols with snapshot comparison, re-run under valgrind memcheck",
                text="the call-order quantifier comes from the TLA+ model of the 33 functions over live/freed handles (phonetic and fixed-layout configurations, setter calls): all in-contract orders to depth 6/7 and random 14-call life "
                     "cycles; each is executed through the extern C symbols with string validity / equality / snapshot-independence checks, and a sample of several hundred (thousand) "
                     "sequences is re-executed under valgrind memcheck, which decides 'no invalid access, no leak'; a fatal signal in the natively executed sequences (double free abort, wild access) is "
                     "reported as a violation with the call sequence as replay file. Claimed as exploration, not model checking: the memory verdict is outside TLA+",
                note="valgrind memcheck is the memory oracle; exported symbols linked from the rlib, the context is an opaque pointer (its Rust type is never named by the harness); in-contract = live handles, in-range indices, variant-appropriate accessors"),
}
NOT_APPLICABLE = {}
