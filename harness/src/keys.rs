//! Key tables: the 111 published codes (work/gen/keycodes.json, generated from include/riti.h by
//! bin/gen.py) and the inverse of a layout file (value -> key code + modifier), read independently
//! of riti's own loader.

use crate::engine::{gen_dir, Cfg};
use serde::Deserialize;
use std::collections::HashMap;

#[derive(Clone, Debug, Deserialize)]
pub struct KeyCode {
    pub name: String,
    pub code: u16,
    pub ch: String,
    pub entry: String,
    pub numpad: bool,
}

pub struct Keys {
    pub codes: Vec<KeyCode>,
    /// ASCII character -> key code (main block preferred over the keypad)
    pub by_char: HashMap<char, u16>,
    pub by_code: HashMap<u16, KeyCode>,
}

impl Keys {
    pub fn load() -> Keys {
        let p = gen_dir().join("keycodes.json");
        let codes: Vec<KeyCode> =
            serde_json::from_slice(&std::fs::read(&p).unwrap_or_else(|e| panic!("{:?}: {}", p, e))).unwrap();
        let mut by_char = HashMap::new();
        for k in codes.iter().filter(|k| !k.numpad) {
            if let Some(c) = k.ch.chars().next() {
                by_char.insert(c, k.code);
            }
        }
        let by_code = codes.iter().map(|k| (k.code, k.clone())).collect();
        Keys { codes, by_char, by_code }
    }
    pub fn code_for_char(&self, c: char) -> Option<u16> {
        self.by_char.get(&c).copied()
    }
    pub fn char_for_code(&self, code: u16) -> Option<char> {
        self.by_code.get(&code).and_then(|k| k.ch.chars().next())
    }
}

/// A layout file read independently: entry name -> value, and value -> (code, modifier).
pub struct LayoutInv {
    pub map: HashMap<String, String>,
    pub inv: HashMap<String, (u16, u8)>,
}

impl LayoutInv {
    pub fn load(cfg: &Cfg, keys: &Keys) -> LayoutInv {
        let v: serde_json::Value =
            serde_json::from_slice(&std::fs::read(cfg.layout_path()).unwrap()).unwrap();
        let map: HashMap<String, String> = serde_json::from_value(v["layout"].clone()).unwrap();
        let mut inv: HashMap<String, (u16, u8)> = HashMap::new();
        // deterministic preference: main block Normal, then AltGr, then keypad
        for k in keys.codes.iter().filter(|k| !k.numpad) {
            for (suffix, m) in [("_Normal", 0u8), ("_AltGr", 2u8)] {
                if let Some(val) = map.get(&format!("{}{}", k.entry, suffix)) {
                    if !val.is_empty() {
                        inv.entry(val.clone()).or_insert((k.code, m));
                    }
                }
            }
        }
        for k in keys.codes.iter().filter(|k| k.numpad && !k.entry.is_empty()) {
            if let Some(val) = map.get(&k.entry) {
                if !val.is_empty() {
                    inv.entry(val.clone()).or_insert((k.code, 0));
                }
            }
        }
        LayoutInv { map, inv }
    }
    pub fn key_for_value(&self, value: &str) -> Option<(u16, u8)> {
        self.inv.get(value).copied()
    }
    /// The value the layout *file* assigns (independent reading): "" when empty/missing/not a key.
    pub fn expected(&self, keys: &Keys, code: u16, modifier: u8, numpad: bool) -> String {
        match keys.by_code.get(&code) {
            None => String::new(),
            Some(k) if k.entry.is_empty() => String::new(),
            Some(k) if k.numpad => {
                if numpad {
                    self.map.get(&k.entry).cloned().unwrap_or_default()
                } else {
                    String::new()
                }
            }
            Some(k) => {
                let plane = if modifier & 2 == 2 { "_AltGr" } else { "_Normal" };
                self.map.get(&format!("{}{}", k.entry, plane)).cloned().unwrap_or_default()
            }
        }
    }
}
