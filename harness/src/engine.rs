//! Thin executor around the real riti engine: builds a `Config` through the exported C symbols (the
//! Rust setters for layout / database / suggestion options are `pub(crate)`), drives a `RitiContext`
//! through its public Rust API under `catch_unwind`, and renders every returned `Suggestion` into a
//! plain observation.  This module never evaluates a property; it executes, abstracts and records.

use riti::config::Config;
use riti::context::RitiContext;
use riti::suggestion::Suggestion;
use serde::{Deserialize, Serialize};
use std::cell::RefCell;
use std::ffi::CString;
use std::os::raw::c_char;
use std::panic::{catch_unwind, AssertUnwindSafe};
use std::path::{Path, PathBuf};

#[allow(improper_ctypes)]
extern "C" {
    pub fn riti_config_new() -> *mut Config;
    pub fn riti_config_free(ptr: *mut Config);
    pub fn riti_config_set_layout_file(ptr: *mut Config, path: *const c_char) -> bool;
    pub fn riti_config_set_database_dir(ptr: *mut Config, path: *const c_char) -> bool;
    pub fn riti_config_set_suggestion_include_english(ptr: *mut Config, option: bool);
    pub fn riti_config_set_phonetic_suggestion(ptr: *mut Config, option: bool);
    pub fn riti_config_set_fixed_suggestion(ptr: *mut Config, option: bool);
    pub fn riti_config_set_fixed_auto_vowel(ptr: *mut Config, option: bool);
    pub fn riti_config_set_fixed_auto_chandra(ptr: *mut Config, option: bool);
    pub fn riti_config_set_fixed_traditional_kar(ptr: *mut Config, option: bool);
    pub fn riti_config_set_fixed_old_reph(ptr: *mut Config, option: bool);
    pub fn riti_config_set_fixed_numpad(ptr: *mut Config, option: bool);
    pub fn riti_config_set_fixed_old_kar_order(ptr: *mut Config, option: bool);
    pub fn riti_config_set_ansi_encoding(ptr: *mut Config, option: bool);
    pub fn riti_config_set_smart_quote(ptr: *mut Config, option: bool);
}

thread_local! {
    static LAST_PANIC: RefCell<Option<String>> = RefCell::new(None);
}

/// Install a panic hook that records the message + location instead of printing it.
pub fn install_quiet_panic_hook() {
    std::panic::set_hook(Box::new(|info| {
        let loc = info
            .location()
            .map(|l| format!("{}:{}", l.file(), l.line()))
            .unwrap_or_default();
        let msg = if let Some(s) = info.payload().downcast_ref::<&str>() {
            s.to_string()
        } else if let Some(s) = info.payload().downcast_ref::<String>() {
            s.clone()
        } else {
            "panic".to_string()
        };
        LAST_PANIC.with(|p| *p.borrow_mut() = Some(format!("{} @ {}", msg, loc)));
    }));
}

pub fn take_panic() -> String {
    LAST_PANIC
        .with(|p| p.borrow_mut().take())
        .unwrap_or_else(|| "panic".into())
}

pub fn repo_dir() -> PathBuf {
    std::env::var("RITI_REPO").unwrap_or_else(|_| "/repo".into()).into()
}
pub fn gen_dir() -> PathBuf {
    std::env::var("VERIF_GEN")
        .map(PathBuf::from)
        .unwrap_or_else(|_| {
            let exe = std::env::current_exe().unwrap();
            // <verif>/harness/target/release/rv -> <verif>/work/gen
            exe.ancestors().nth(4).unwrap().join("work").join("gen")
        })
}

/// Abstract configuration (the 11 booleans + layout id).  `layout`: "phonetic" | "probhat" | "synth".
#[derive(Clone, Debug, Serialize, Deserialize, PartialEq, Eq, Hash)]
#[serde(default)]
pub struct Cfg {
    pub layout: String,
    pub psug: bool,
    pub fsug: bool,
    pub english: bool,
    pub ansi: bool,
    pub smart: bool,
    pub vowel: bool,
    pub chandra: bool,
    pub kar: bool,
    pub reph: bool,
    pub numpad: bool,
    pub karorder: bool,
    /// set the database directory (false = leave it unset: empty tables)
    pub db: bool,
    /// ... to ANOTHER valid database directory (work/gen/altdb: a dictionary of a few words) instead of the repository's
    pub altdb: bool,
}

impl Default for Cfg {
    fn default() -> Self {
        Cfg {
            layout: "phonetic".into(),
            psug: false,
            fsug: false,
            english: false,
            ansi: false,
            smart: false,
            vowel: false,
            chandra: false,
            kar: false,
            reph: false,
            numpad: true,
            karorder: false,
            db: true,
            altdb: false,
        }
    }
}

impl Cfg {
    /// the database directory this configuration names
    pub fn data_dir(&self) -> String {
        if self.altdb { gen_dir().join("altdb").to_string_lossy().into_owned() } else { repo_dir().join("data").to_string_lossy().into_owned() }
    }
    pub fn is_phonetic(&self) -> bool {
        self.layout == "phonetic"
    }
    pub fn layout_path(&self) -> String {
        match self.layout.as_str() {
            "phonetic" => "avro_phonetic".into(),
            "probhat" => repo_dir().join("data/Probhat.json").to_string_lossy().into_owned(),
            "synth" => gen_dir().join("synth.json").to_string_lossy().into_owned(),
            // same file name as the bundled layout, another directory, other assignments of plain letter keys
            "probhat2" => gen_dir().join("alt/Probhat.json").to_string_lossy().into_owned(),
            other => other.to_string(),
        }
    }
    /// Suggestions (list-style) enabled for the active method?
    pub fn sug(&self) -> bool {
        if self.is_phonetic() {
            self.psug
        } else {
            self.fsug
        }
    }
}

/// `$XDG_DATA_HOME` is process-global and read by `riti_config_new()` (Config::default).  The lock is
/// held across "set the variable + create the Config", so worker threads can use different homes.
static HOME_LOCK: std::sync::Mutex<()> = std::sync::Mutex::new(());

/// An owned riti `Config` created through the C symbols.  `user_home` becomes `$XDG_DATA_HOME` (the
/// user files live in `<user_home>/openbangla-keyboard/`) *at creation time of the Config*.
pub struct RealConfig {
    ptr: *mut Config,
}

impl RealConfig {
    pub fn new(cfg: &Cfg, user_home: &Path) -> RealConfig {
        unsafe {
            let ptr = {
                let _g = HOME_LOCK.lock().unwrap();
                std::env::set_var("XDG_DATA_HOME", user_home);
                riti_config_new()
            };
            // A configuration object is a plain record: what a context does with it depends on the values the fields hold when it
            // is handed over, not on the calls that put them there (a front-end keeps ONE object and changes it as the user
            // changes the settings).  Two of three objects therefore get a HISTORY first - another layout file, every option set
            // to the opposite value, the final values written in another order, some of them twice - before they hold `cfg`.
            static HISTORY: std::sync::atomic::AtomicU64 = std::sync::atomic::AtomicU64::new(0);
            let n = HISTORY.fetch_add(1, std::sync::atomic::Ordering::Relaxed);
            let lp = CString::new(cfg.layout_path()).unwrap();
            let set_bool = |k: usize, v: bool| match k {
                0 => riti_config_set_suggestion_include_english(ptr, v),
                1 => riti_config_set_phonetic_suggestion(ptr, v),
                2 => riti_config_set_fixed_suggestion(ptr, v),
                3 => riti_config_set_fixed_auto_vowel(ptr, v),
                4 => riti_config_set_fixed_auto_chandra(ptr, v),
                5 => riti_config_set_fixed_traditional_kar(ptr, v),
                6 => riti_config_set_fixed_old_reph(ptr, v),
                7 => riti_config_set_fixed_numpad(ptr, v),
                8 => riti_config_set_fixed_old_kar_order(ptr, v),
                9 => riti_config_set_ansi_encoding(ptr, v),
                _ => riti_config_set_smart_quote(ptr, v),
            };
            let vals = [cfg.english, cfg.psug, cfg.fsug, cfg.vowel, cfg.chandra, cfg.kar, cfg.reph, cfg.numpad, cfg.karorder, cfg.ansi, cfg.smart];
            if n % 3 != 0 {
                // earlier life of the object: the other kind of layout, every option the other way round
                let other = if cfg.is_phonetic() { repo_dir().join("data/Probhat.json").to_string_lossy().into_owned() } else { "avro_phonetic".to_string() };
                let op = CString::new(other).unwrap();
                let _ = riti_config_set_layout_file(ptr, op.as_ptr());
                for k in 0..vals.len() {
                    set_bool(k, !vals[k]);
                }
            }
            assert!(riti_config_set_layout_file(ptr, lp.as_ptr()), "layout path rejected: {:?}", lp);
            if cfg.db {
                let dp = CString::new(cfg.data_dir()).unwrap();
                assert!(riti_config_set_database_dir(ptr, dp.as_ptr()));
            }
            match n % 3 {
                0 => for k in 0..vals.len() { set_bool(k, vals[k]); },
                1 => for k in (0..vals.len()).rev() { set_bool(k, vals[k]); },
                _ => {
                    // rotated order, the output-encoding switch toggled once more on the way
                    let r = (n / 3) as usize % vals.len();
                    for i in 0..vals.len() {
                        let k = (i + r) % vals.len();
                        if k == 9 { set_bool(9, !vals[9]); }
                        set_bool(k, vals[k]);
                    }
                }
            }
            RealConfig { ptr }
        }
    }
    /// The same object, changed in place to hold `cfg` (what a front-end does when the user changes a setting).
    pub fn apply(&self, cfg: &Cfg) {
        unsafe {
            let ptr = self.ptr;
            let lp = CString::new(cfg.layout_path()).unwrap();
            assert!(riti_config_set_layout_file(ptr, lp.as_ptr()), "layout path rejected: {:?}", lp);
            if cfg.db {
                let dp = CString::new(cfg.data_dir()).unwrap();
                assert!(riti_config_set_database_dir(ptr, dp.as_ptr()));
            }
            riti_config_set_ansi_encoding(ptr, cfg.ansi);
            riti_config_set_suggestion_include_english(ptr, cfg.english);
            riti_config_set_phonetic_suggestion(ptr, cfg.psug);
            riti_config_set_fixed_suggestion(ptr, cfg.fsug);
            riti_config_set_fixed_auto_vowel(ptr, cfg.vowel);
            riti_config_set_fixed_auto_chandra(ptr, cfg.chandra);
            riti_config_set_fixed_traditional_kar(ptr, cfg.kar);
            riti_config_set_fixed_old_reph(ptr, cfg.reph);
            riti_config_set_fixed_numpad(ptr, cfg.numpad);
            riti_config_set_fixed_old_kar_order(ptr, cfg.karorder);
            riti_config_set_smart_quote(ptr, cfg.smart);
        }
    }
    pub fn get(&self) -> &Config {
        unsafe { &*self.ptr }
    }
    /// The configuration with an unbounded lifetime (the owner keeps the RealConfig alive as long as anything refers to it).
    pub fn get_static(&self) -> &'static Config {
        unsafe { &*self.ptr }
    }
    pub fn raw(&self) -> *mut Config {
        self.ptr
    }
}

impl Drop for RealConfig {
    fn drop(&mut self) {
        unsafe { riti_config_free(self.ptr) }
    }
}

/// CPU time consumed by the calling thread, in microseconds.  The per-call time budget of C01 is measured in CPU time of
/// the calling thread, not wall-clock time: a loaded machine cannot turn a fast call into a slow one.
pub fn thread_cpu_us() -> u64 {
    let mut ts = libc::timespec { tv_sec: 0, tv_nsec: 0 };
    unsafe {
        libc::clock_gettime(libc::CLOCK_THREAD_CPUTIME_ID, &mut ts);
    }
    ts.tv_sec as u64 * 1_000_000 + ts.tv_nsec as u64 / 1000
}

/// Rendering of one returned `Suggestion` (+ the session flag read right after the call).
#[derive(Clone, Debug, Serialize, Deserialize, PartialEq, Eq, Default)]
pub struct Obs {
    /// "empty" | "single" | "full" | "panic" | "none" (event without return value)
    pub kind: String,
    pub aux: String,
    pub sel: usize,
    pub cands: Vec<String>,
    /// pre-edit text per index; None = the accessor panicked
    pub pre: Vec<Option<String>>,
    pub ongoing: bool,
    pub panic: Option<String>,
    pub us: u64,
}

impl Obs {
    /// The text a front-end would show as pre-edit for the preselected candidate ("" when empty).
    pub fn pre_text(&self) -> Option<String> {
        match self.kind.as_str() {
            "empty" => Some(String::new()),
            "single" => self.pre.get(0).cloned().flatten(),
            "full" => self.pre.get(0).cloned().flatten(),
            _ => None,
        }
    }
    pub fn len(&self) -> usize {
        match self.kind.as_str() {
            "single" => 1,
            "full" => self.cands.len(),
            _ => 0,
        }
    }
    /// Everything a user can see, for differential comparisons.
    pub fn rendering(&self) -> (String, String, usize, Vec<String>, Vec<Option<String>>, bool) {
        (
            self.kind.clone(),
            self.aux.clone(),
            self.sel,
            self.cands.clone(),
            self.pre.clone(),
            self.ongoing,
        )
    }
}

pub fn render(sug: &Suggestion) -> Obs {
    let mut o = Obs::default();
    if sug.is_lonely() {
        let s = sug.get_lonely_suggestion().to_string();
        o.kind = if s.is_empty() { "empty".into() } else { "single".into() };
        o.cands = vec![s];
        let pre = catch_unwind(AssertUnwindSafe(|| sug.get_pre_edit_text(0)));
        match pre {
            Ok(p) => o.pre = vec![Some(p)],
            Err(_) => {
                o.pre = vec![None];
                o.panic = Some(format!("readout: {}", take_panic()));
            }
        }
    } else {
        o.kind = "full".into();
        o.aux = sug.get_auxiliary_text().to_string();
        o.sel = sug.previously_selected_index();
        o.cands = sug.get_suggestions().to_vec();
        for i in 0..sug.len() {
            match catch_unwind(AssertUnwindSafe(|| sug.get_pre_edit_text(i))) {
                Ok(p) => o.pre.push(Some(p)),
                Err(_) => {
                    o.pre.push(None);
                    o.panic = Some(format!("readout[{}]: {}", i, take_panic()));
                }
            }
        }
    }
    o
}

/// One call on a live context (the context object itself is never named by its type: the harness keeps building when the
/// type's signature changes, e.g. when a change makes the context borrow its configuration).
pub enum Op {
    Key(u16, u8, u8),
    Backspace(bool),
    Commit(usize),
    Finish,
    Update(&'static Config),
    Ongoing,
}
pub enum Out {
    Sug(Suggestion),
    Nothing,
    Flag(bool),
}
type Engine = Box<dyn FnMut(Op) -> Out>;

fn make_engine(cfg: &'static Config) -> Engine {
    let mut ctx = RitiContext::new_with_config(cfg);
    Box::new(move |op| match op {
        Op::Key(code, modifier, sel) => Out::Sug(ctx.get_suggestion_for_key(code, modifier, sel)),
        Op::Backspace(ctrl) => Out::Sug(ctx.backspace_event(ctrl)),
        Op::Commit(index) => {
            ctx.candidate_committed(index);
            Out::Nothing
        }
        Op::Finish => {
            ctx.finish_input_session();
            Out::Nothing
        }
        Op::Update(c) => {
            ctx.update_engine(c);
            Out::Nothing
        }
        Op::Ongoing => Out::Flag(ctx.ongoing_input_session()),
    })
}

/// A live context with its config.
pub struct Ctx {
    pub cfg: Cfg,
    pub real: RealConfig,
    /// configurations the context was given earlier (kept alive as long as the context: it may still refer to them)
    old_reals: Vec<RealConfig>,
    pub ctx: Option<Engine>,
    pub user_home: PathBuf,
    /// a panic happened inside an engine call: the context must not be used any more
    pub dead: bool,
    /// number of update-engine calls so far
    pub updates: u64,
    /// re-configurations change the configuration object of this context in place (else: a new object per call)
    pub inplace: bool,
}

impl Ctx {
    /// Create a context; a panic during construction is reported as Err(message).
    pub fn new(cfg: &Cfg, user_home: &Path) -> Result<Ctx, String> {
        let real = RealConfig::new(cfg, user_home);
        static CONTEXTS: std::sync::atomic::AtomicU64 = std::sync::atomic::AtomicU64::new(0);
        let inplace = CONTEXTS.fetch_add(1, std::sync::atomic::Ordering::Relaxed) % 2 == 0;
        let r = catch_unwind(AssertUnwindSafe(|| make_engine(real.get_static())));
        match r {
            Ok(ctx) => Ok(Ctx {
                cfg: cfg.clone(),
                real,
                old_reals: Vec::new(),
                ctx: Some(ctx),
                user_home: user_home.to_path_buf(),
                dead: false,
                updates: 0,
                inplace,
            }),
            Err(_) => Err(take_panic()),
        }
    }

    fn call(&mut self, op: Op) -> std::thread::Result<Out> {
        let c = self.ctx.as_mut().unwrap();
        catch_unwind(AssertUnwindSafe(|| c(op)))
    }

    fn finish_obs(&mut self, r: std::thread::Result<Out>, t0: u64) -> Obs {
        let mut o = match r {
            Ok(Out::Sug(s)) => render(&s),
            Ok(_) => Obs {
                kind: "none".into(),
                ..Default::default()
            },
            Err(_) => {
                self.dead = true;
                Obs {
                    kind: "panic".into(),
                    panic: Some(take_panic()),
                    ..Default::default()
                }
            }
        };
        if !self.dead {
            match self.call(Op::Ongoing) {
                Ok(Out::Flag(b)) => o.ongoing = b,
                Ok(_) => {}
                Err(_) => {
                    self.dead = true;
                    o.kind = "panic".into();
                    o.panic = Some(take_panic());
                }
            }
        }
        o.us = thread_cpu_us().saturating_sub(t0);
        o
    }

    pub fn key(&mut self, code: u16, modifier: u8, sel: u8) -> Obs {
        let t0 = thread_cpu_us();
        let r = self.call(Op::Key(code, modifier, sel));
        self.finish_obs(r, t0)
    }
    pub fn backspace(&mut self, ctrl: bool) -> Obs {
        let t0 = thread_cpu_us();
        let r = self.call(Op::Backspace(ctrl));
        self.finish_obs(r, t0)
    }
    pub fn commit(&mut self, index: usize) -> Obs {
        let t0 = thread_cpu_us();
        let r = self.call(Op::Commit(index));
        self.finish_obs(r, t0)
    }
    pub fn finish(&mut self) -> Obs {
        let t0 = thread_cpu_us();
        let r = self.call(Op::Finish);
        self.finish_obs(r, t0)
    }
    pub fn update(&mut self, cfg: &Cfg) -> Obs {
        let t0 = thread_cpu_us();
        // every other CONTEXT re-uses, for all its re-configurations, the configuration OBJECT it was created with, changed in
        // place (a front-end keeps one object for life); the others are handed a new object every time
        self.updates += 1;
        if self.inplace && cfg.db == self.cfg.db {
            self.real.apply(cfg);
            let r = self.call(Op::Update(self.real.get_static()));
            self.cfg = cfg.clone();
            return self.finish_obs(r, t0);
        }
        let real = RealConfig::new(cfg, &self.user_home);
        let r = self.call(Op::Update(real.get_static()));
        self.cfg = cfg.clone();
        let old = std::mem::replace(&mut self.real, real);
        self.old_reals.push(old);
        if self.old_reals.len() > 1 {
            // (the context can only refer to the configuration it was given last)
            self.old_reals.remove(0);
        }
        self.finish_obs(r, t0)
    }
    pub fn ongoing(&mut self) -> bool {
        matches!(self.call(Op::Ongoing), Ok(Out::Flag(true)))
    }
}

impl Drop for Ctx {
    fn drop(&mut self) {
        // A context that panicked mid-call may hold inconsistent state; dropping is still safe Rust.
        // (the context goes first, its configurations after it)
        let c = self.ctx.take();
        let _ = catch_unwind(AssertUnwindSafe(move || drop(c)));
    }
}

/// Remove the per-user files (a clean, but existing, user-data directory).
pub fn clean_home(home: &Path) {
    let d = home.join("openbangla-keyboard");
    let _ = std::fs::remove_file(d.join("phonetic-candidate-selection.json"));
    let _ = std::fs::remove_file(d.join("autocorrect.json"));
}

/// Fresh scratch user-data home under <verif>/work/tmp (never /tmp).
pub fn scratch_home(tag: &str) -> PathBuf {
    use std::sync::atomic::{AtomicU64, Ordering};
    static N: AtomicU64 = AtomicU64::new(0);
    let base = std::env::var("VERIF_TMP")
        .map(PathBuf::from)
        .unwrap_or_else(|_| gen_dir().parent().unwrap().join("tmp"));
    let p = base.join(format!(
        "{}-{}-{}",
        tag,
        std::process::id(),
        N.fetch_add(1, Ordering::Relaxed)
    ));
    // a normal environment: the user-data directory exists (its absence is C10's subject)
    std::fs::create_dir_all(p.join("openbangla-keyboard")).unwrap();
    p
}
