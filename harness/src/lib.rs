pub mod engine;
pub mod keys;
pub mod replay;
pub mod report;
pub mod session;
pub mod oracles;
pub mod script;
