//! Replay of MC_Session behaviours (C01 / C02 / C06, method-switch part of C11) through the real engine.
//!
//! The history comes from the specification; symbolic selection bytes / commit indices are bound to
//! the length the real engine returned.  At every terminating event (the statement's definition:
//! commit, finish, ctrl-backspace on a non-empty composition, a backspace that returns an empty
//! suggestion) a brand-new context with the same configuration is forked; from then on every event is
//! fed to the used context and to all forks and the full renderings must agree (C06, "behaves from
//! then on exactly like a newly created context").

use crate::engine::*;
use crate::replay::{chars_of, text_of, Replayer};
use serde_json::{json, Value};

pub fn cfg_of(v: &Value, db: bool) -> Cfg {
    let b = |k: &str| v.get(k).and_then(|x| x.as_bool()).unwrap_or(false);
    let o = &v["o"];
    let ob = |k: &str| o.get(k).and_then(|x| x.as_bool()).unwrap_or(false);
    let phon = v["method"].as_str() == Some("phonetic");
    Cfg {
        layout: if phon { "phonetic".into() } else { v["layout"].as_str().unwrap_or("synth").to_string() },
        psug: phon && b("sug"),
        fsug: !phon && b("sug"),
        english: b("english"),
        ansi: b("ansi"),
        smart: b("smart"),
        vowel: ob("vowel"),
        chandra: ob("chandra"),
        kar: ob("kar"),
        reph: ob("reph"),
        karorder: ob("karorder"),
        numpad: true,
        db,
        altdb: false,
    }
}

impl Replayer {
    fn concretise_key(&self, cfg: &Cfg, st: &Value, variant: u64) -> Option<(u16, u8)> {
        if cfg.is_phonetic() {
            let ch = st["ch"].as_str().unwrap_or("");
            match ch.chars().next() {
                Some(c) => self.keys.code_for_char(c).map(|k| (k, 0)),
                // a published key code without a character: keypad Enter / keypad Equals
                None => {
                    let name = if variant % 2 == 0 { "VC_KP_ENTER" } else { "VC_KP_EQUALS" };
                    self.keys.codes.iter().find(|k| k.name == name).map(|k| (k.code, 0))
                }
            }
        } else {
            let val = text_of(&st["val"]);
            if val.is_empty() {
                // a key without assignment in the synthetic layout: AltGr+q (empty string) / AltGr+w (missing)
                let c = if variant % 2 == 0 { 'q' } else { 'w' };
                self.keys.code_for_char(c).map(|k| (k, 2))
            } else {
                self.synth.key_for_value(&val)
            }
        }
    }

    pub fn mc_session(&mut self, v: &Value) {
        let steps = v["steps"].as_array().cloned().unwrap_or_default();
        if steps.is_empty() {
            return;
        }
        let db = v["db"].as_bool().unwrap_or(false);
        clean_home(&self.home);
        let mut cfg = cfg_of(&steps[0]["cfg"], db);
        let mut used = match Ctx::new(&cfg, &self.home) {
            Ok(c) => c,
            Err(p) => {
                self.rep.violation("panic", &format!("creating a context panicked: {}", p), v.clone());
                return;
            }
        };
        let mut forks: Vec<(usize, Ctx)> = Vec::new();
        let mut last = Obs { kind: "none".into(), ..Default::default() };
        let mut shown = false;
        let mut nontrivial = false;
        let variant = self.rep.behaviours;
        for (i, st) in steps.iter().enumerate().skip(1) {
            let op = st["op"].as_str().unwrap_or("");
            let was_ongoing = used.ongoing();
            let last_len = last.len();
            // ---- bind the symbolic parts, stay inside the contract of the *concrete* run
            enum E {
                Key(u16, u8, u8),
                Bs(bool),
                Commit(usize),
                Finish,
                Update(Cfg),
            }
            let ev = match op {
                "key" => {
                    let (code, m) = match self.concretise_key(&cfg, st, variant) {
                        Some(x) => x,
                        None => {
                            self.rep.note("key_not_concretisable");
                            return;
                        }
                    };
                    let sel = if st["sel"].as_str() == Some("max") && last.kind == "full" && last_len > 0 {
                        (last_len - 1).min(255) as u8
                    } else {
                        0
                    };
                    E::Key(code, m, sel)
                }
                "bs" => E::Bs(st["ctrl"].as_bool().unwrap_or(false)),
                "commit" => {
                    if !shown || last_len == 0 {
                        self.rep.note("truncated:commit_out_of_contract_in_concrete_run");
                        break;
                    }
                    // no learning in these runs: the store is held fixed (C06 quantifier)
                    let idx = if cfg.is_phonetic() && cfg.psug {
                        last.sel.min(last_len - 1)
                    } else if st["idx"].as_str() == Some("max") {
                        last_len - 1
                    } else {
                        0
                    };
                    E::Commit(idx)
                }
                "finish" => E::Finish,
                "update" => {
                    if was_ongoing {
                        self.rep.note("truncated:update_while_ongoing_in_concrete_run");
                        break;
                    }
                    E::Update(cfg_of(&st["cfg"], db))
                }
                _ => return,
            };
            let apply = |c: &mut Ctx, ev: &E| -> Obs {
                match ev {
                    E::Key(code, m, sel) => c.key(*code, *m, *sel),
                    E::Bs(ctrl) => c.backspace(*ctrl),
                    E::Commit(i) => c.commit(*i),
                    E::Finish => c.finish(),
                    E::Update(cf) => c.update(cf),
                }
            };
            let obs = apply(&mut used, &ev);
            self.rep.events += 1;
            let case = || json!({"behaviour": v, "step": i});
            // ---- C01
            if obs.kind == "panic" {
                self.rep.violation("panic", &format!("step {} ({}): engine panicked: {}", i, op, obs.panic.clone().unwrap_or_default()), case());
                return;
            }
            if obs.us > 5_000_000 {
                self.rep.violation("panic", &format!("step {} ({}): call took {} ms", i, op, obs.us / 1000), case());
                return;
            }
            // ---- C02
            self.rep.compared += 1;
            if obs.kind == "full" {
                let sel_valid = true; // the selection byte passed was bound inside the previous list
                let bad = if obs.cands.is_empty() {
                    Some("a list-style suggestion with no candidate".to_string())
                } else if sel_valid && obs.sel >= obs.cands.len() {
                    Some(format!("preselected index {} is outside the list of {}", obs.sel, obs.cands.len()))
                } else if obs.pre.iter().any(|p| p.is_none()) {
                    Some(format!("pre-edit text not readable: {}", obs.panic.clone().unwrap_or_default()))
                } else {
                    None
                };
                if let Some(b) = bad {
                    self.rep.violation("wf", &format!("step {} ({}): {}", i, op, b), case());
                    return;
                }
                // auxiliary text = the in-progress composition
                let aux = text_of(&st["aux"]);
                if cfg.is_phonetic() {
                    if obs.aux != aux {
                        self.rep.violation("wf", &format!("step {} ({}): auxiliary text {:?} is not the typed text {:?}", i, op, obs.aux, aux), case());
                        return;
                    }
                } else if obs.aux != aux {
                    self.rep.drift(&format!("step {}: fixed-mode auxiliary text {:?}, transcript {:?}", i, obs.aux, aux), json!({"steps": steps[..=i].to_vec()}));
                    return;
                }
            } else if obs.kind == "single" && obs.pre.iter().any(|p| p.is_none()) {
                self.rep.violation("wf", &format!("step {} ({}): single suggestion not readable as pre-edit text: {}", i, op, obs.panic.clone().unwrap_or_default()), case());
                return;
            }
            // ---- C06: flag rules
            let pre_nonempty = match obs.kind.as_str() {
                "single" | "full" => obs.pre.iter().any(|p| p.as_deref().map(|s| !s.is_empty()).unwrap_or(false)),
                _ => false,
            };
            let terminating = match &ev {
                E::Commit(_) | E::Finish => true,
                E::Bs(true) => was_ongoing,
                E::Bs(false) => was_ongoing && obs.kind == "empty",
                _ => false,
            };
            let flag_bad = if pre_nonempty && !obs.ongoing {
                Some("non-empty pre-edit text but no ongoing session".to_string())
            } else if terminating && obs.ongoing {
                Some(format!("still reports an ongoing session after a terminating event ({})", op))
            } else if matches!(ev, E::Bs(_)) && !was_ongoing && (obs.kind != "empty" || obs.ongoing) {
                Some(format!("backspace when idle returned a {} suggestion / ongoing={}", obs.kind, obs.ongoing))
            } else {
                None
            };
            if let Some(b) = flag_bad {
                self.rep.violation("flag", &format!("step {} ({}): {}", i, op, b), case());
                return;
            }
            // ---- C06: forks (fresh contexts created at earlier terminating events) must agree
            let mut fork_bad = None;
            for (born, f) in forks.iter_mut() {
                let fo = apply(f, &ev);
                self.rep.events += 1;
                self.rep.compared += 1;
                nontrivial = true;
                if fo.rendering() != obs.rendering() {
                    fork_bad = Some((*born, fo));
                    break;
                }
            }
            if let Some((born, fo)) = fork_bad {
                self.rep.violation(
                    "fresh",
                    &format!("step {} ({}): the used context answers {:?} sel={} ongoing={} kind={}, a context created fresh after the terminating event at step {} answers {:?} sel={} ongoing={} kind={}",
                             i, op, obs.cands, obs.sel, obs.ongoing, obs.kind, born, fo.cands, fo.sel, fo.ongoing, fo.kind),
                    case(),
                );
                return;
            }
            if let E::Update(cf) = &ev {
                cfg = cf.clone();
            }
            if terminating {
                match Ctx::new(&cfg, &self.home) {
                    Ok(c) => forks.push((i, c)),
                    Err(p) => {
                        self.rep.violation("panic", &format!("creating a context panicked: {}", p), case());
                        return;
                    }
                }
            }
            match &ev {
                E::Key(..) | E::Bs(_) => {
                    shown = obs.kind == "single" || (obs.kind == "full" && !obs.cands.is_empty());
                    last = obs;
                }
                _ => {
                    shown = false;
                    last = Obs { kind: "none".into(), ..Default::default() };
                }
            }
        }
        if nontrivial {
            self.rep.nontrivial += 1;
        }
        if self.rep.samples.len() < 3 {
            let evs: Vec<String> = steps
                .iter()
                .map(|s| match s["op"].as_str().unwrap_or("") {
                    "key" => format!("key({}{})", if s["ch"].as_str() == Some("") { "<no-char>".to_string() } else { s["ch"].as_str().unwrap_or("").to_string() }, if s["sel"] == "max" { ",sel=max" } else { "" }),
                    "bs" => if s["ctrl"] == true { "ctrl-bs".into() } else { "bs".into() },
                    "commit" => format!("commit({})", s["idx"].as_str().unwrap_or("")),
                    "new" => format!("new({})", s["cfg"]["name"].as_str().unwrap_or("")),
                    "update" => format!("update({})", s["cfg"]["name"].as_str().unwrap_or("")),
                    o => o.to_string(),
                })
                .collect();
            self.rep.sample(json!({"events": evs, "final_aux": chars_of(&last.aux)}));
        }
    }
}

impl Replayer {
    /// C11: MC_Update histories.  The updated context and a context created fresh at the update point
    /// (same configuration, same user files) receive the same continuation; renderings must agree.
    pub fn mc_update(&mut self, v: &Value) {
        let steps = v["steps"].as_array().cloned().unwrap_or_default();
        let _ = std::fs::remove_dir_all(&self.home);
        let home = self.home_slot("upd");
        let acpath = home.join("openbangla-keyboard/autocorrect.json");
        let write_ac = |file: &Value, stamp: u64| {
            let mut m = serde_json::Map::new();
            if let Some(o) = file.as_object() {
                for (w, ver) in o {
                    match ver.as_u64().unwrap_or(0) {
                        0 => {}
                        1 => { m.insert(w.clone(), Value::String(format!("{}a", w))); }
                        _ => { m.insert(w.clone(), Value::String(format!("{}i", w))); }
                    }
                }
            }
            if m.is_empty() && stamp == 1 {
                let _ = std::fs::remove_file(&acpath); // the context starts without a user file
                return;
            }
            std::fs::write(&acpath, serde_json::to_string(&Value::Object(m)).unwrap()).unwrap();
            let f = std::fs::OpenOptions::new().write(true).open(&acpath).unwrap();
            // explicit modification times: stamp granularity cannot cause a false alarm
            f.set_modified(std::time::UNIX_EPOCH + std::time::Duration::from_secs(1_700_000_000 + stamp * 10)).unwrap();
        };
        let mut used: Option<Ctx> = None;
        let mut fresh: Option<Ctx> = None;
        let mut nontrivial = false;
        for (i, st) in steps.iter().enumerate() {
            let case = || json!({"behaviour": v, "step": i});
            match st["op"].as_str().unwrap_or("") {
                "new" => {
                    write_ac(&st["acfile"], 1);
                    let cfg: Cfg = serde_json::from_value(st["cfg"].clone()).unwrap_or_default();
                    match Ctx::new(&cfg, &home) {
                        Ok(c) => used = Some(c),
                        Err(p) => {
                            self.rep.violation("panic", &format!("creating a context panicked: {}", p), case());
                            return;
                        }
                    }
                }
                "acwrite" => write_ac(&st["acfile"], st["stamp"].as_u64().unwrap_or(2)),
                "accorrupt" => {
                    // the file is no longer parsable (an interrupted save of the editor): a proper prefix of a valid document
                    let stamp = st["stamp"].as_u64().unwrap_or(2);
                    let docs: [&[u8]; 4] = [b"{\"as\":\"asa\",\"onno\":\"on", b"", b"[\"as\"]", b"{\"as\":1}"];
                    std::fs::write(&acpath, docs[(self.rep.behaviours % 4) as usize]).unwrap();
                    let f = std::fs::OpenOptions::new().write(true).open(&acpath).unwrap();
                    f.set_modified(std::time::UNIX_EPOCH + std::time::Duration::from_secs(1_700_000_000 + stamp * 10)).unwrap();
                }
                "acremove" => {
                    let _ = std::fs::remove_file(&acpath);
                }
                "update" => {
                    let cfg: Cfg = serde_json::from_value(st["cfg"].clone()).unwrap_or_default();
                    let o = used.as_mut().unwrap().update(&cfg);
                    self.rep.events += 1;
                    if o.kind == "panic" {
                        self.rep.violation("panic", &format!("update-engine panicked: {}", o.panic.unwrap_or_default()), case());
                        return;
                    }
                    match Ctx::new(&cfg, &home) {
                        Ok(c) => fresh = Some(c),
                        Err(p) => {
                            self.rep.violation("panic", &format!("creating a context panicked: {}", p), case());
                            return;
                        }
                    }
                }
                "typefinish" => {
                    let w = st["w"].as_str().unwrap_or("");
                    let mut outs: Vec<Vec<Obs>> = Vec::new();
                    for c in [used.as_mut(), fresh.as_mut()].into_iter().flatten() {
                        let mut os = Vec::new();
                        for ch in w.chars() {
                            let code = self.keys.code_for_char(ch).unwrap();
                            let o = c.key(code, 0, 0);
                            self.rep.events += 1;
                            if o.kind == "panic" {
                                self.rep.violation("panic", &format!("step {}: engine panicked: {}", i, o.panic.clone().unwrap_or_default()), case());
                                return;
                            }
                            os.push(o);
                        }
                        c.finish();
                        outs.push(os);
                    }
                    if outs.len() == 2 {
                        nontrivial = true;
                        self.rep.compared += 1;
                        for (a, b) in outs[0].iter().zip(outs[1].iter()) {
                            if a.rendering() != b.rendering() {
                                self.rep.violation(
                                    "update",
                                    &format!("step {} typing {:?}: the updated context answers {:?} sel={} ({}), a context created fresh with the new configuration over the same user files answers {:?} sel={} ({})",
                                             i, w, a.cands, a.sel, a.kind, b.cands, b.sel, b.kind),
                                    case(),
                                );
                                return;
                            }
                        }
                    }
                }
                _ => {}
            }
        }
        if nontrivial {
            self.rep.nontrivial += 1;
        }
        if self.rep.samples.len() < 3 {
            let evs: Vec<String> = steps.iter().map(|s| format!("{}{}", s["op"].as_str().unwrap_or(""), if s["w"].as_str().unwrap_or("").is_empty() { String::new() } else { format!("({})", s["w"].as_str().unwrap()) })).collect();
            self.rep.sample(json!({"events": evs, "start_cfg": steps[0]["cfg"]["layout"], "final_cfg": steps.iter().rev().find(|s| s["op"] == "update").map(|s| s["cfg"]["layout"].clone())}));
        }
    }
}
