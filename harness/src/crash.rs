//! A fatal signal raised by the code under test (SIGSEGV / SIGBUS / SIGILL / SIGABRT - e.g. glibc's "double free
//! detected" abort after an ownership mistake behind the C interface) is data, not a tool error.  Each replay worker
//! keeps the behaviour it is executing in a pre-allocated slot; the handler - async-signal-safe calls only: open,
//! write, _exit, no allocation - writes a replay file from that slot, prints one `RV-CRASH <signal> <path>` line and
//! ends the process.  bin/stages.py turns the line into a violation (site `memory`).

use std::cell::Cell;
use std::sync::atomic::{AtomicUsize, Ordering};

const SLOTS: usize = 40;
const SLOT_BYTES: usize = 1 << 17;

struct Slots(std::cell::UnsafeCell<[[u8; SLOT_BYTES]; SLOTS]>);
unsafe impl Sync for Slots {}
static TEXT: Slots = Slots(std::cell::UnsafeCell::new([[0u8; SLOT_BYTES]; SLOTS]));
static LEN: [AtomicUsize; SLOTS] = [const { AtomicUsize::new(0) }; SLOTS];

struct Fixed(std::cell::UnsafeCell<[u8; 1024]>);
unsafe impl Sync for Fixed {}
static PATH: Fixed = Fixed(std::cell::UnsafeCell::new([0u8; 1024])); // NUL-terminated
static HEAD: Fixed = Fixed(std::cell::UnsafeCell::new([0u8; 1024]));
static HEAD_LEN: AtomicUsize = AtomicUsize::new(0);
static PATH_LEN: AtomicUsize = AtomicUsize::new(0);

thread_local! {
    static WIDX: Cell<usize> = const { Cell::new(usize::MAX) };
}

/// The calling thread executes behaviours for slot `widx` from now on.
pub fn bind_thread(widx: usize) {
    WIDX.with(|c| c.set(widx));
}

/// The behaviour the calling thread starts to execute (None: finished).
pub fn set_current(js: Option<&str>) {
    let w = WIDX.with(|c| c.get());
    if w >= SLOTS {
        return;
    }
    match js {
        Some(s) if s.len() <= SLOT_BYTES => unsafe {
            LEN[w].store(0, Ordering::SeqCst);
            (&mut (*TEXT.0.get())[w])[..s.len()].copy_from_slice(s.as_bytes());
            LEN[w].store(s.len(), Ordering::SeqCst);
        },
        _ => LEN[w].store(0, Ordering::SeqCst),
    }
}

fn wr(fd: i32, b: &[u8]) {
    let mut off = 0;
    while off < b.len() {
        let n = unsafe { libc::write(fd, b[off..].as_ptr() as *const libc::c_void, b.len() - off) };
        if n <= 0 {
            break;
        }
        off += n as usize;
    }
}

extern "C" fn on_fatal(sig: libc::c_int) {
    unsafe {
        let w = WIDX.with(|c| c.get());
        let fd = libc::open((&*PATH.0.get()).as_ptr() as *const libc::c_char, libc::O_WRONLY | libc::O_CREAT | libc::O_TRUNC, 0o644);
        let digits = [b'0' + (sig / 10 % 10) as u8, b'0' + (sig % 10) as u8];
        if fd >= 0 {
            wr(fd, &(&*HEAD.0.get())[..HEAD_LEN.load(Ordering::SeqCst)]);
            wr(fd, &digits);
            wr(fd, b" while this behaviour was executed (memory error / abort behind the interface)\",\"case\":{\"signal\":\"");
            wr(fd, &digits);
            wr(fd, b"\",\"behaviour\":");
            let n = if w < SLOTS { LEN[w].load(Ordering::SeqCst) } else { 0 };
            if n > 0 {
                wr(fd, &(&*TEXT.0.get())[w][..n]);
            } else {
                wr(fd, b"null");
            }
            wr(fd, b"}}\n");
            libc::close(fd);
        }
        wr(1, b"\nRV-CRASH ");
        wr(1, &digits);
        wr(1, b" ");
        wr(1, &(&*PATH.0.get())[..PATH_LEN.load(Ordering::SeqCst)]);
        wr(1, b"\n");
        libc::_exit(70);
    }
}

/// Install the handlers.  `replay_dir`: where the replay file goes (None: the system temp directory).
pub fn install(property: &str, replay_dir: Option<&std::path::Path>) {
    let dir = replay_dir.map(|p| p.to_path_buf()).unwrap_or_else(std::env::temp_dir);
    let _ = std::fs::create_dir_all(&dir);
    let path = dir.join(format!("crash-{}.json", std::process::id()));
    let pb = path.to_string_lossy().into_owned().into_bytes();
    let head = format!("{{\"property\":\"{}\",\"site\":\"memory\",\"what\":\"the process received fatal signal ", property).into_bytes();
    if pb.len() >= 1023 || head.len() >= 1024 {
        return;
    }
    unsafe {
        (&mut *PATH.0.get())[..pb.len()].copy_from_slice(&pb);
        (&mut *PATH.0.get())[pb.len()] = 0;
        PATH_LEN.store(pb.len(), Ordering::SeqCst);
        (&mut *HEAD.0.get())[..head.len()].copy_from_slice(&head);
        HEAD_LEN.store(head.len(), Ordering::SeqCst);
        for sig in [libc::SIGSEGV, libc::SIGBUS, libc::SIGILL, libc::SIGABRT, libc::SIGFPE] {
            let mut sa: libc::sigaction = std::mem::zeroed();
            sa.sa_sigaction = on_fatal as *const () as usize;
            libc::sigemptyset(&mut sa.sa_mask);
            // on the alternate stack std sets up for every thread: a stack overflow is reported too
            sa.sa_flags = libc::SA_ONSTACK | libc::SA_RESETHAND;
            libc::sigaction(sig, &sa, std::ptr::null_mut());
        }
    }
}

// ----- the recorder (impl -> spec): a fatal signal becomes a `panic` event at the end of the trace, which every trace
// specification rejects; the process then ends like a normal recording (RV-RECORDED n).

static REC_FD: std::sync::atomic::AtomicI32 = std::sync::atomic::AtomicI32::new(-1);
static REC_N: std::sync::atomic::AtomicU64 = std::sync::atomic::AtomicU64::new(0);

pub fn recorder_progress(n: u64) {
    REC_N.store(n, Ordering::SeqCst);
}

extern "C" fn on_fatal_rec(sig: libc::c_int) {
    let fd = REC_FD.load(Ordering::SeqCst);
    let digits = [b'0' + (sig / 10 % 10) as u8, b'0' + (sig % 10) as u8];
    if fd >= 0 {
        wr(fd, b"\n{\"ev\":\"panic\",\"kind\":\"panic\",\"typed\":[],\"code\":0,\"mod\":0,\"sel\":0,\"ms\":0,\"panic\":\"fatal signal\",\"what\":\"the process received fatal signal ");
        wr(fd, &digits);
        wr(fd, b" (memory error / abort in the code under test)\"}\n");
    }
    // RV-RECORDED <n + 1>
    let mut buf = [0u8; 24];
    let mut n = REC_N.load(Ordering::SeqCst) + 1;
    let mut i = buf.len();
    loop {
        i -= 1;
        buf[i] = b'0' + (n % 10) as u8;
        n /= 10;
        if n == 0 || i == 0 {
            break;
        }
    }
    wr(1, b"\nRV-RECORDED ");
    wr(1, &buf[i..]);
    wr(1, b"\n");
    unsafe { libc::_exit(0) }
}

/// Install the recorder's handlers; `fd` is the trace file (every event is flushed as soon as it is emitted).
pub fn install_recorder(fd: i32) {
    REC_FD.store(fd, Ordering::SeqCst);
    unsafe {
        for sig in [libc::SIGSEGV, libc::SIGBUS, libc::SIGILL, libc::SIGABRT, libc::SIGFPE] {
            let mut sa: libc::sigaction = std::mem::zeroed();
            sa.sa_sigaction = on_fatal_rec as *const () as usize;
            libc::sigemptyset(&mut sa.sa_mask);
            sa.sa_flags = libc::SA_ONSTACK | libc::SA_RESETHAND;
            libc::sigaction(sig, &sa, std::ptr::null_mut());
        }
    }
}
