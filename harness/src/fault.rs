//! C10: replay of MC_Fault scenarios.  The abstract file states are concretised here:
//!   torn         every proper byte prefix of a store the engine itself wrote (all crash points of the
//!                non-atomic save) - swept at every context creation over a torn file
//!   wrongshape   a corpus of documents that are not a JSON object of strings
//!   emptyentries objects with empty keys / values
//! Oracle (from the spec): no event panics; a context started over unreadable content renders like a
//! context started with the file absent; after a failed save the choice is still preselected in the
//! same context.

use crate::engine::*;
use crate::replay::Replayer;
use serde_json::{json, Value};
use std::path::{Path, PathBuf};

const WRONG_SHAPE: &[&[u8]] = &[
    b"[]", b"3", b"\"text\"", b"null", b"true", b"{\"a\":1}", b"{\"a\":{\"b\":\"c\"}}", b"{\"a\":null}", b"{\"a\":[\"b\"]}",
    b"<DIR>", b"{a:b}", b"{\"a\":\"b\",}", b"\xff\xfe{\"a\":\"b\"}", b"\xef\xbb\xbf{\"a\":\"b\"}", b"{\"a\":\"\xff\"}", b"[{\"a\":\"b\"}]", b"   ",
];
const EMPTY_ENTRIES_SEL: &[&str] = &["{\"as\":\"\"}", "{\"\":\"x\"}", "{\"\":\"\"}", "{\"a\":\"\",\"as\":\"\",\"amar\":\"\"}", "{}",
                                     "{\"as\":\"xyz\",\"amar\":\"\u{1F600}\"}", "{\"a\":\"a\",\"tumi\":\"\u{00E9}\"}"];
// (also: replacements that are not Avro-Latin text - written directly in Bengali, with a non-ASCII Latin letter)
const EMPTY_ENTRIES_AC: &[&str] = &["{\"as\":\"\"}", "{\"\":\"x\"}", "{\"\":\"\"}", "{\"a\":\"\",\"as\":\"\",\"amar\":\"\"}", "{}",
                                    "{\"as\":\"\u{0986}\u{09B6}\",\"amar\":\"t\u{00FC}m\"}", "{\"a\":\"\u{0986}\",\"tumi\":\"\u{00E9}\"}"];
const VALID_SEL: &str = "{\"amar\":\"\u{0986}\u{09AE}\u{09B0}\",\"as\":\"\u{0986}\u{09B6}\"}";
const VALID_AC: &str = "{\"as\":\"asa\",\"tumi\":\"tomra\"}";
const WORDS: &[&str] = &["as", "ase", "amar", "a", "tumi", ":e", ":er"];

fn dirp(home: &Path) -> PathBuf {
    home.join("openbangla-keyboard")
}
fn selp(home: &Path) -> PathBuf {
    dirp(home).join("phonetic-candidate-selection.json")
}
fn acp(home: &Path) -> PathBuf {
    dirp(home).join("autocorrect.json")
}

impl Replayer {
    fn fault_cfg() -> Cfg {
        Cfg { layout: "phonetic".into(), psug: true, english: true, smart: true, db: true, ..Default::default() }
    }

    /// Renderings of the probe words in a context (None on panic, with the message).
    fn probe_words(&mut self, c: &mut Ctx) -> Result<Vec<Obs>, String> {
        let mut out = Vec::new();
        for w in WORDS {
            let mut last = Obs::default();
            for ch in w.chars() {
                last = c.key(self.keys.code_for_char(ch).unwrap(), 0, 0);
                self.rep.events += 1;
                if last.kind == "panic" {
                    return Err(format!("typing {:?}: {}", w, last.panic.unwrap_or_default()));
                }
            }
            let f = c.finish();
            if f.kind == "panic" {
                return Err(format!("finish: {}", f.panic.unwrap_or_default()));
            }
            out.push(last);
        }
        Ok(out)
    }

    /// A store the engine itself wrote (two learning commits), as bytes.
    fn engine_written_store(&mut self) -> Vec<u8> {
        if let Some(b) = &self.torn_source {
            return b.clone();
        }
        let home = self.home_slot("tornsrc");
        let mut bytes = VALID_SEL.as_bytes().to_vec();
        if let Ok(mut c) = Ctx::new(&Self::fault_cfg(), &home) {
            for w in ["amar", "as", "kotha"] {
                let mut last = Obs::default();
                for ch in w.chars() {
                    last = c.key(self.keys.code_for_char(ch).unwrap(), 0, 0);
                }
                if last.kind == "full" && last.cands.len() > 1 {
                    let o = c.commit((last.sel + 1) % last.cands.len());
                    if o.kind == "panic" {
                        break;
                    }
                }
            }
            if let Ok(b) = std::fs::read(selp(&home)) {
                if b.len() > 10 {
                    bytes = b;
                }
            }
        }
        self.torn_source = Some(bytes.clone());
        bytes
    }

    fn put(&self, path: &Path, state: &str, variant: usize, is_sel: bool, torn: &[u8]) {
        let _ = std::fs::remove_file(path);
        let _ = std::fs::remove_dir_all(path);
        match state {
            "absent" => {}
            "valid" => std::fs::write(path, if is_sel { VALID_SEL } else { VALID_AC }).unwrap(),
            "empty" => std::fs::write(path, b"").unwrap(),
            "torn" => {
                let src: Vec<u8> = if is_sel { torn.to_vec() } else { VALID_AC.as_bytes().to_vec() };
                let k = 1 + variant % (src.len() - 1);
                std::fs::write(path, &src[..k]).unwrap();
            }
            "wrongshape" => {
                let doc = WRONG_SHAPE[variant % WRONG_SHAPE.len()];
                if doc == b"<DIR>" {
                    std::fs::create_dir_all(path).unwrap(); // not a file at all: a directory sits at the path
                } else {
                    std::fs::write(path, doc).unwrap()
                }
            }
            "emptyentries" => {
                let c = if is_sel { EMPTY_ENTRIES_SEL } else { EMPTY_ENTRIES_AC };
                std::fs::write(path, c[variant % c.len()]).unwrap()
            }
            _ => {}
        }
    }

    fn variants_of(state: &str, torn_len: usize) -> usize {
        match state {
            "torn" => torn_len.saturating_sub(1).max(1),
            "wrongshape" => WRONG_SHAPE.len(),
            "emptyentries" => EMPTY_ENTRIES_SEL.len().max(EMPTY_ENTRIES_AC.len()),
            _ => 1,
        }
    }

    pub fn mc_fault(&mut self, v: &Value) {
        let steps = v["steps"].as_array().cloned().unwrap_or_default();
        if steps.is_empty() {
            return;
        }
        let torn = self.engine_written_store();
        let cfg = Self::fault_cfg();
        // reference: a context started with both files absent
        if self.absent_ref.is_none() {
            let home = self.home_slot("absentref");
            let mut c = Ctx::new(&cfg, &home).unwrap();
            self.absent_ref = self.probe_words(&mut c).ok();
        }
        let env = &steps[0];
        let (sel0, ac0, dir0) = (env["sel"].as_str().unwrap_or("absent"), env["ac"].as_str().unwrap_or("absent"), env["dir"].as_str().unwrap_or("ok"));
        // sweep the concretisations of the initial file states (the larger of the two corpora)
        let full = Self::variants_of(sel0, torn.len()).max(Self::variants_of(ac0, VALID_AC.len()));
        // the complete sweep (every byte prefix, the whole corpus) is made once per environment and worker;
        // further event sequences over the same environment use a rotating sample of the concretisations
        let envkey = format!("{}|{}|{}", sel0, ac0, dir0);
        let first = v["focus"].as_str().unwrap_or("all") == "all" && self.swept_envs.insert(envkey);
        // (the damage-focused instance leaves the complete sweeps to the main instance)
        let nvar = if first { full } else { full.min(4) };
        let offset = if first { 0 } else { (self.rep.behaviours as usize * 7) % full.max(1) };
        let mut nontrivial = false;
        for variant in (0..nvar).map(|x| x + offset) {
            let _ = std::fs::remove_dir_all(self.home.join("slot-fault"));
            let home = self.home_slot("fault");
            self.put(&selp(&home), sel0, variant, true, &torn);
            self.put(&acp(&home), ac0, variant, false, &torn);
            match dir0 {
                "missing" => { let _ = std::fs::remove_dir_all(dirp(&home)); }
                "blocked" => { let _ = std::fs::remove_dir_all(dirp(&home)); std::fs::write(dirp(&home), b"not a directory").unwrap(); }
                _ => {}
            }
            let mut ctx: Option<Ctx> = None;
            let mut learned: Option<(String, String)> = None; // (word, committed text) learned in the live context
            let case = |i: usize| json!({"behaviour": v, "step": i, "variant": variant,
                                          "sel_file": std::fs::read(selp(&home)).ok().map(|b| String::from_utf8_lossy(&b).into_owned()),
                                          "ac_file": std::fs::read(acp(&home)).ok().map(|b| String::from_utf8_lossy(&b).into_owned())});
            for (i, st) in steps.iter().enumerate().skip(1) {
                let op = st["op"].as_str().unwrap_or("");
                let (sel_now, ac_now) = (st["sel"].as_str().unwrap_or(""), st["ac"].as_str().unwrap_or(""));
                match op {
                    "new" => {
                        // the spec's state before this step decides what the files look like
                        let prev = &steps[i - 1];
                        let (psel, pac) = (prev["sel"].as_str().unwrap_or("absent"), prev["ac"].as_str().unwrap_or("absent"));
                        match Ctx::new(&cfg, &home) {
                            Ok(mut c) => {
                                let unreadable = |s: &str| matches!(s, "empty" | "torn" | "wrongshape");
                                // AsAbsent: only when neither file contributes entries
                                if (unreadable(psel) || psel == "absent") && (unreadable(pac) || pac == "absent") && (unreadable(psel) || unreadable(pac)) {
                                    match self.probe_words(&mut c) {
                                        Ok(obs) => {
                                            nontrivial = true;
                                            self.rep.compared += 1;
                                            if let Some(r) = &self.absent_ref {
                                                for (a, b) in obs.iter().zip(r.iter()) {
                                                    if a.rendering() != b.rendering() {
                                                        self.rep.violation("fault", &format!("step {} (new): unreadable user files are not treated as absent: {:?} sel={} vs absent {:?} sel={}", i, a.cands, a.sel, b.cands, b.sel), case(i));
                                                        return;
                                                    }
                                                }
                                            }
                                        }
                                        Err(p) => {
                                            self.rep.violation("fault", &format!("step {}: after creating a context over selection file '{}' / auto-correct file '{}': {}", i, psel, pac, p), case(i));
                                            return;
                                        }
                                    }
                                }
                                ctx = Some(c);
                            }
                            Err(p) => {
                                self.rep.violation("fault", &format!("step {} (new): creating a context over selection file '{}' / auto-correct file '{}' / directory '{}' panicked: {}", i, psel, pac, st["dir"].as_str().unwrap_or(""), p), case(i));
                                return;
                            }
                        }
                    }
                    "type" => {
                        if let Some(mut c) = ctx.take() {
                            match self.probe_words(&mut c) {
                                Ok(_) => {}
                                Err(p) => {
                                    self.rep.violation("fault", &format!("step {} (type): {}", i, p), case(i));
                                    return;
                                }
                            }
                            ctx = Some(c);
                        }
                    }
                    "commit" => {
                        if let Some(c) = ctx.as_mut() {
                            // (":" - the engine itself then stores an EMPTY choice: the raw text of a punctuation-only word has no word part)
                            let words = ["amar", "kotha", ":", "tumi", "bhalo"];
                            let w = words[(i + variant) % words.len()];
                            let mut last = Obs::default();
                            for ch in w.chars() {
                                last = c.key(self.keys.code_for_char(ch).unwrap(), 0, 0);
                                self.rep.events += 1;
                            }
                            if last.kind == "full" && last.cands.len() > 1 {
                                let idx = (last.sel + 1) % last.cands.len();
                                let o = c.commit(idx);
                                self.rep.events += 1;
                                if o.kind == "panic" || last.kind == "panic" {
                                    self.rep.violation("fault", &format!("step {} (commit) with directory '{}': {}", i, st["dir"].as_str().unwrap_or(""), o.panic.unwrap_or_default()), case(i));
                                    return;
                                }
                                learned = Some((w.to_string(), last.cands[idx].clone()));
                                // a failed save loses at most that choice: it is still known to this context
                                let mut again = Obs::default();
                                for ch in w.chars() {
                                    again = c.key(self.keys.code_for_char(ch).unwrap(), 0, 0);
                                    self.rep.events += 1;
                                }
                                c.finish();
                                self.rep.compared += 1;
                                nontrivial = true;
                                // (the statement speaks of a learned choice for a WORD; for the punctuation-only text only "nothing panics" applies)
                                let is_word = w.chars().any(|ch| ch.is_ascii_alphanumeric());
                                if again.kind == "panic" || (is_word && again.cands.get(again.sel) != Some(&last.cands[idx])) {
                                    self.rep.violation("fault", &format!("step {} (commit) with directory '{}': the choice {:?} is not remembered by the same context (preselected {:?})", i, st["dir"].as_str().unwrap_or(""), last.cands[idx], again.cands.get(again.sel)), case(i));
                                    return;
                                }
                                // a completed save leaves a loadable file
                                // (if something that is not a file sits at the store's path the save cannot complete either)
                                if st["dir"] == "ok" && !selp(&home).is_dir() {
                                    let map = std::fs::read(selp(&home)).ok().and_then(|b| serde_json::from_slice::<std::collections::HashMap<String, String>>(&b).ok());
                                    if map.is_none() {
                                        self.rep.violation("fault", &format!("step {} (commit): the store file is not a JSON object of strings after a completed save", i), case(i));
                                        return;
                                    }
                                    // ... and it holds the choice just made (the whole map is written on every learning commit)
                                    if is_word && !map.unwrap().contains_key(w) {
                                        self.rep.violation("fault", &format!("step {} (commit): the save completed but the store file does not hold the choice made for {:?}", i, w), case(i));
                                        return;
                                    }
                                }
                            }
                        }
                    }
                    "repair" => {
                        // the user-data directory appears / becomes writable under the live context
                        let d = dirp(&home);
                        if d.is_file() {
                            let _ = std::fs::remove_file(&d);
                        }
                        let _ = std::fs::create_dir_all(&d);
                    }
                    "crash-in-save" => {
                        ctx = None;
                        learned = None;
                        self.put(&selp(&home), sel_now, variant + i, true, &torn);
                    }
                    "restart" => {
                        ctx = None;
                        learned = None;
                    }
                    "damage" => {
                        // the auto-correct file is replaced while the context lives (newer modification time)
                        self.put(&acp(&home), ac_now, variant + i, false, &torn);
                        if let Ok(f) = std::fs::OpenOptions::new().write(true).open(acp(&home)) {
                            let _ = f.set_modified(std::time::SystemTime::now() + std::time::Duration::from_secs(100 * (i as u64 + 1)));
                        }
                    }
                    "update" => {
                        if let Some(mut c) = ctx.take() {
                            let o = c.update(&cfg);
                            self.rep.events += 1;
                            if o.kind == "panic" {
                                self.rep.violation("fault", &format!("step {} (update) over auto-correct file '{}': {}", i, ac_now, o.panic.unwrap_or_default()), case(i));
                                return;
                            }
                            // re-loading = what a context created now sees (as long as nothing was learned in memory only)
                            let committed = steps[..i].iter().any(|s| s["op"] == "commit");
                            if !committed {
                                let live = self.probe_words(&mut c);
                                let fresh = match Ctx::new(&cfg, &home) {
                                    Ok(mut f) => self.probe_words(&mut f),
                                    Err(p) => Err(format!("creating a context: {}", p)),
                                };
                                match (live, fresh) {
                                    (Ok(a), Ok(b)) => {
                                        nontrivial = true;
                                        self.rep.compared += 1;
                                        for (x, y) in a.iter().zip(b.iter()) {
                                            if x.rendering() != y.rendering() {
                                                self.rep.violation("fault", &format!("step {} (update) over auto-correct file '{}': after re-loading the context answers {:?} sel={}, a context created now over the same files answers {:?} sel={}",
                                                                                     i, ac_now, x.cands, x.sel, y.cands, y.sel), case(i));
                                                return;
                                            }
                                        }
                                    }
                                    (Err(p), _) | (_, Err(p)) => {
                                        self.rep.violation("fault", &format!("step {} (after update) over auto-correct file '{}': {}", i, ac_now, p), case(i));
                                        return;
                                    }
                                }
                            }
                            ctx = Some(c);
                        }
                    }
                    _ => {}
                }
            }
            let _ = learned;
        }
        if nontrivial {
            self.rep.nontrivial += 1;
        }
        if self.rep.samples.len() < 3 {
            self.rep.sample(json!({"environment": steps[0], "events": steps.iter().skip(1).map(|s| s["op"].clone()).collect::<Vec<_>>(), "concretisations": nvar}));
        }
    }
}
