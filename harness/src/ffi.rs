//! C19: replay of MC_FFI call sequences through the exported `extern "C"` symbols of riti (linked from
//! the rlib).  Every returned string is checked to be NUL-terminated valid UTF-8, equal to what the
//! Rust accessor reports on the same Suggestion and equal to the snapshot taken when the suggestion was
//! returned (independence from later calls on / freeing of its context).  Whatever is still live at the
//! end of a sequence is freed through the interface, so the same replay under valgrind memcheck
//! reports invalid accesses and leaks.

use crate::engine::*;
use crate::replay::Replayer;
use riti::config::Config;
/// The context behind the C interface is an opaque pointer here (its Rust type is never named: the harness keeps building
/// when the type's signature changes).
#[repr(C)]
pub struct RitiContext {
    _opaque: [u8; 0],
}
use riti::suggestion::Suggestion;
use serde_json::{json, Value};
use std::collections::HashMap;
use std::ffi::{CStr, CString};
use std::os::raw::c_char;

#[allow(improper_ctypes)]
extern "C" {
    fn riti_context_new_with_config(ptr: *const Config) -> *mut RitiContext;
    fn riti_context_free(ptr: *mut RitiContext);
    fn riti_get_suggestion_for_key(ptr: *mut RitiContext, key: u16, modifier: u8, selection: u8) -> *mut Suggestion;
    fn riti_context_candidate_committed(ptr: *mut RitiContext, index: usize);
    fn riti_context_update_engine(ptr: *mut RitiContext, config: *const Config);
    fn riti_context_ongoing_input_session(ptr: *mut RitiContext) -> bool;
    fn riti_context_finish_input_session(ptr: *mut RitiContext);
    fn riti_context_backspace_event(ptr: *mut RitiContext, ctrl: bool) -> *mut Suggestion;
    fn riti_suggestion_free(ptr: *mut Suggestion);
    fn riti_suggestion_get_suggestion(ptr: *const Suggestion, index: usize) -> *mut c_char;
    fn riti_suggestion_get_lonely_suggestion(ptr: *const Suggestion) -> *mut c_char;
    fn riti_suggestion_get_auxiliary_text(ptr: *const Suggestion) -> *mut c_char;
    fn riti_suggestion_get_pre_edit_text(ptr: *const Suggestion, index: usize) -> *mut c_char;
    fn riti_string_free(ptr: *mut c_char);
    fn riti_suggestion_previously_selected_index(ptr: *const Suggestion) -> usize;
    fn riti_suggestion_get_length(ptr: *const Suggestion) -> usize;
    fn riti_suggestion_is_lonely(ptr: *const Suggestion) -> bool;
    fn riti_suggestion_is_empty(ptr: *const Suggestion) -> bool;
}

struct SugH {
    ptr: *mut Suggestion,
    snap: Obs,
}

/// ('\u{1}' stands for a published key WITHOUT a character: keypad Enter)
const WORD: &[char] = &['a', 'm', 'a', 'r', '.', 'k', '\u{1}', 'o', ':', 't', 'h', 'a', '`'];

impl Replayer {
    pub fn mc_ffi(&mut self, v: &Value) {
        let calls = v["calls"].as_array().cloned().unwrap_or_default();
        let db = v["db"].as_bool().unwrap_or(false);
        let mut cfgs: HashMap<u64, *mut Config> = HashMap::new();
        let mut ctxs: HashMap<u64, *mut RitiContext> = HashMap::new();
        let mut sugs: HashMap<u64, SugH> = HashMap::new();
        let mut strs: HashMap<u64, *mut c_char> = HashMap::new();
        let mut bad: Option<(usize, String)> = None;
        // (the key cycle starts at another place in every sequence: words that BEGIN with a full stop, a colon or the escape
        // character - punctuation-only compositions - are read out as well)
        let mut nkeys: usize = (self.rep.behaviours as usize) % WORD.len();
        let mut layouts: HashMap<u64, bool> = HashMap::new();
        clean_home(&self.home);
        let r = std::panic::catch_unwind(std::panic::AssertUnwindSafe(|| unsafe {
            for (i, c) in calls.iter().enumerate() {
                let f = c["f"].as_str().unwrap_or("");
                let h = c["h"].as_u64().unwrap_or(0);
                let a = c["a"].as_u64().unwrap_or(0);
                let b = c["b"].as_u64().unwrap_or(0) == 1;
                self.rep.events += 1;
                match f {
                    "riti_config_new" => {
                        let fixed = c["idx"].as_str() == Some("fixed");
                        let real = RealConfig::new(&Cfg { layout: if fixed { "probhat".into() } else { "phonetic".into() }, psug: b, fsug: b, db, english: true,
                                                          smart: true, vowel: true, chandra: true, kar: true, ..Default::default() }, &self.home);
                        layouts.insert(h, fixed);
                        // RealConfig frees on drop; hand the raw pointer to the model's life cycle instead
                        let p = real.raw();
                        std::mem::forget(real);
                        cfgs.insert(h, p);
                    }
                    "riti_config_free" => {
                        if let Some(p) = cfgs.remove(&h) {
                            riti_config_free(p);
                        }
                    }
                    "riti_context_new_with_config" => {
                        ctxs.insert(h, riti_context_new_with_config(cfgs[&a]));
                    }
                    "riti_context_free" => {
                        if let Some(p) = ctxs.remove(&h) {
                            riti_context_free(p);
                        }
                    }
                    "riti_get_suggestion_for_key" | "riti_context_backspace_event" => {
                        let x = ctxs[&a];
                        let p = if f == "riti_get_suggestion_for_key" {
                            let ch = WORD[nkeys % WORD.len()];
                            nkeys += 1;
                            let code = if ch == '\u{1}' { 3612 } else { self.keys.code_for_char(ch).unwrap() };
                            riti_get_suggestion_for_key(x, code, 0, 0)
                        } else {
                            riti_context_backspace_event(x, b)
                        };
                        if p.is_null() {
                            bad = Some((i, format!("{} returned NULL", f)));
                            break;
                        }
                        let snap = render(&*p);
                        sugs.insert(h, SugH { ptr: p, snap });
                    }
                    "riti_context_candidate_committed" => {
                        // index bound to the real list of the shown suggestion
                        let idx = match sugs.get(&a) {
                            Some(s) if s.snap.kind == "full" && !s.snap.cands.is_empty() => match c["idx"].as_str().unwrap_or("") {
                                "last" => s.snap.cands.len() - 1,
                                "sel" => s.snap.sel.min(s.snap.cands.len() - 1),
                                _ => 0,
                            },
                            Some(s) if s.snap.kind == "single" => 0,
                            _ => {
                                self.rep.note("ffi:commit_skipped_out_of_contract_in_concrete_run");
                                continue;
                            }
                        };
                        riti_context_candidate_committed(ctxs[&h], idx);
                    }
                    "riti_context_finish_input_session" => riti_context_finish_input_session(ctxs[&h]),
                    "riti_context_ongoing_input_session" => {
                        let _ = riti_context_ongoing_input_session(ctxs[&h]);
                    }
                    "riti_context_update_engine" => {
                        if riti_context_ongoing_input_session(ctxs[&h]) {
                            self.rep.note("ffi:update_skipped_not_idle_in_concrete_run");
                            continue;
                        }
                        riti_context_update_engine(ctxs[&h], cfgs[&a]);
                    }
                    "riti_suggestion_free" => {
                        if let Some(s) = sugs.remove(&h) {
                            riti_suggestion_free(s.ptr);
                        }
                    }
                    "riti_string_free" => {
                        if c["idx"] == "null" {
                            riti_string_free(std::ptr::null_mut());
                        } else if let Some(p) = strs.remove(&h) {
                            riti_string_free(p);
                        }
                    }
                    "riti_suggestion_is_lonely" | "riti_suggestion_is_empty" | "riti_suggestion_get_length" | "riti_suggestion_previously_selected_index" => {
                        let s = &sugs[&h];
                        let lonely = s.snap.kind != "full";
                        self.rep.compared += 1;
                        let ok = match f {
                            "riti_suggestion_is_lonely" => riti_suggestion_is_lonely(s.ptr) == lonely,
                            "riti_suggestion_is_empty" => riti_suggestion_is_empty(s.ptr) == (s.snap.kind == "empty" || (s.snap.kind == "full" && s.snap.cands.is_empty())),
                            "riti_suggestion_get_length" => lonely || riti_suggestion_get_length(s.ptr) == s.snap.cands.len(),
                            _ => lonely || riti_suggestion_previously_selected_index(s.ptr) == s.snap.sel,
                        };
                        if !ok {
                            bad = Some((i, format!("{} disagrees with the value the suggestion had when it was returned", f)));
                            break;
                        }
                    }
                    "riti_suggestion_get_suggestion" | "riti_suggestion_get_lonely_suggestion" | "riti_suggestion_get_auxiliary_text" | "riti_suggestion_get_pre_edit_text" => {
                        let s = &sugs[&a];
                        let full = s.snap.kind == "full";
                        let n = s.snap.cands.len();
                        let idx = if c["idx"] == "last" && full && n > 0 { n - 1 } else { 0 };
                        // stay in contract in the concrete run (the model's variant is an abstraction)
                        let (ptr, expect): (*mut c_char, Option<String>) = match f {
                            "riti_suggestion_get_suggestion" if full && n > 0 => (riti_suggestion_get_suggestion(s.ptr, idx), s.snap.cands.get(idx).cloned()),
                            "riti_suggestion_get_auxiliary_text" if full => (riti_suggestion_get_auxiliary_text(s.ptr), Some(s.snap.aux.clone())),
                            "riti_suggestion_get_lonely_suggestion" if !full => (riti_suggestion_get_lonely_suggestion(s.ptr), s.snap.cands.get(0).cloned()),
                            "riti_suggestion_get_pre_edit_text" if !full || n > 0 => (riti_suggestion_get_pre_edit_text(s.ptr, idx), s.snap.pre.get(idx).cloned().flatten()),
                            _ => {
                                self.rep.note("ffi:readout_skipped_variant_differs_in_concrete_run");
                                continue;
                            }
                        };
                        if ptr.is_null() {
                            bad = Some((i, format!("{} returned NULL", f)));
                            break;
                        }
                        strs.insert(h, ptr);
                        self.rep.compared += 1;
                        let bytes = CStr::from_ptr(ptr).to_bytes().to_vec();
                        // the value the Rust API reports on the same Suggestion right now
                        let now = render(&*s.ptr);
                        let rust_now: Option<String> = match f {
                            "riti_suggestion_get_suggestion" => now.cands.get(idx).cloned(),
                            "riti_suggestion_get_auxiliary_text" => Some(now.aux.clone()),
                            "riti_suggestion_get_lonely_suggestion" => now.cands.get(0).cloned(),
                            _ => now.pre.get(idx).cloned().flatten(),
                        };
                        match String::from_utf8(bytes) {
                            Err(_) => {
                                bad = Some((i, format!("{} returned bytes that are not valid UTF-8", f)));
                                break;
                            }
                            Ok(got) => {
                                if Some(&got) != expect.as_ref() {
                                    bad = Some((i, format!("{} returned {:?}; the suggestion held {:?} when it was returned (call {})", f, got, expect, i)));
                                    break;
                                }
                                if Some(&got) != rust_now.as_ref() {
                                    bad = Some((i, format!("{} returned {:?}; the Rust API reports {:?}", f, got, rust_now)));
                                    break;
                                }
                            }
                        }
                    }
                    other if other.starts_with("riti_config_set_") => {
                        let p = cfgs[&h];
                        match &other["riti_config_set_".len()..] {
                            "suggestion_include_english" => riti_config_set_suggestion_include_english(p, b),
                            "phonetic_suggestion" => riti_config_set_phonetic_suggestion(p, b),
                            "fixed_suggestion" => riti_config_set_fixed_suggestion(p, b),
                            "fixed_auto_vowel" => riti_config_set_fixed_auto_vowel(p, b),
                            "fixed_auto_chandra" => riti_config_set_fixed_auto_chandra(p, b),
                            "fixed_traditional_kar" => riti_config_set_fixed_traditional_kar(p, b),
                            "fixed_old_reph" => riti_config_set_fixed_old_reph(p, b),
                            "fixed_numpad" => riti_config_set_fixed_numpad(p, b),
                            "fixed_old_kar_order" => riti_config_set_fixed_old_kar_order(p, b),
                            "ansi_encoding" => riti_config_set_ansi_encoding(p, b),
                            "smart_quote" => riti_config_set_smart_quote(p, b),
                            _ => {}
                        }
                        // exercise the two path setters as well (same values): part of the 33 functions
                        let lp = CString::new(if layouts.get(&h).copied().unwrap_or(false) {
                            repo_dir().join("data/Probhat.json").to_string_lossy().into_owned()
                        } else {
                            "avro_phonetic".to_string()
                        }).unwrap();
                        let _ = riti_config_set_layout_file(p, lp.as_ptr());
                        if db {
                            let dp = CString::new(repo_dir().join("data").to_string_lossy().into_owned()).unwrap();
                            let _ = riti_config_set_database_dir(p, dp.as_ptr());
                        }
                    }
                    _ => {}
                }
            }
            // complete the life cycle: free what is still live (strings, suggestions, contexts, configurations)
            for (_, p) in strs.drain() {
                riti_string_free(p);
            }
            for (_, s) in sugs.drain() {
                riti_suggestion_free(s.ptr);
            }
            for (_, p) in ctxs.drain() {
                riti_context_free(p);
            }
            for (_, p) in cfgs.drain() {
                riti_config_free(p);
            }
        }));
        if r.is_err() {
            self.rep.violation("ffi", &format!("a call of the C interface panicked (= abort at the ABI): {}", take_panic()), json!({"behaviour": v}));
            return;
        }
        if let Some((i, what)) = bad {
            self.rep.violation("ffi", &format!("call {}: {}", i, what), json!({"behaviour": v, "call": i}));
            return;
        }
        self.rep.nontrivial += 1;
        if self.rep.samples.len() < 3 {
            self.rep.sample(json!({"calls": calls.iter().map(|c| format!("{}({})", c["f"].as_str().unwrap_or(""), c["h"])).collect::<Vec<_>>()}));
        }
    }
}
