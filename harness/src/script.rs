//! Generic scenario executor.  A TLA+ instance decides WHICH scenarios exist and WHICH relations must
//! hold between their observations; this module concretises the abstract character classes, executes
//! the runs on the real engine and evaluates the primitive comparisons it is told to make.
//!
//! {"mc":"Script","site":"<site>","vars":{"P":["M","M"],"W":["L","D"]},"variants":3,
//!  "runs":{"A":[step..],"B":[step..]},"checks":[check..]}
//!
//! step:  {"op":"new","cfg":{..},"home":"h0"} | {"op":"type","text":["$P","$W"]} |
//!        {"op":"key","ch":"a","sel":0} | {"op":"bs","ctrl":false} | {"op":"commit","idx":"sel"|"other"|"last"|n}
//!        | {"op":"finish"} | {"op":"update","cfg":{..}} | {"op":"write","home":"h0","file":"ac"|"sel","content":"..","mtime":n}
//!        | {"op":"remove","home":"h0","file":..} | {"op":"rmdir","home"} | {"op":"blockdir","home"}
//! check: {"k":"eq","a":["A",i],"b":["B",j],"f":"render"|"cands"|"seltext"}
//!        {"k":"uncurl","on":["A",i],"off":["B",j]}
//!        {"k":"translit","at":["A",i],"parts":["$P","$W","$Q"],"mode":"single"|"cand"}
//!        {"k":"store_ok","home":"h0"}
//! A panic in any step is a violation (site "panic") unless the script sets "allow_panic".

use crate::engine::*;
use crate::oracles::*;
use crate::replay::Replayer;
use serde_json::{json, Value};
use std::collections::HashMap;
use std::path::PathBuf;

pub struct Rng(pub u64);
impl Rng {
    pub fn next(&mut self) -> u64 {
        let mut x = self.0;
        x ^= x << 13;
        x ^= x >> 7;
        x ^= x << 17;
        self.0 = x;
        x
    }
    pub fn below(&mut self, n: usize) -> usize {
        (self.next() % n.max(1) as u64) as usize
    }
    pub fn pick<'a, T>(&mut self, v: &'a [T]) -> &'a T {
        &v[self.below(v.len())]
    }
}

pub const META: &str = "-]~!@#%&*()_=+[{}'\";<>/?|.,";
const LOWER: &str = "abcdefghijklmnopqrstuvwxyz";
const UPPER: &str = "ABCDEFGHIJKLMNOPQRSTUVWXYZ";
const DIGITS: &str = "0123456789";

/// Members of an abstract character class (phonetic / ASCII side).
pub fn class_members(cls: &str) -> Vec<char> {
    match cls {
        "L*" => LOWER.chars().collect(),
        "U*" => UPPER.chars().collect(),
        "A*" => LOWER.chars().chain(UPPER.chars()).collect(),
        "D*" => DIGITS.chars().collect(),
        "M*" => META.chars().collect(),
        // META punctuation other than quotes
        "N*" => META.chars().filter(|c| *c != '\'' && *c != '"').collect(),
        "Q*" => vec!['"', '\''],
        "C*" => vec![':'],
        "B*" => vec!['`'],
        "S*" => vec!['$', '^', '\\'],
        // fixed-layout side (values the bundled Probhat layout can emit)
        "k*" => "কখগঘচছজটডতদনপবমরলসহ".chars().collect(),
        "n*" => "!@#%()-_=+;,?~".chars().collect(),
        // an ASCII symbol the bundled layout emits as it is and the splitter does not count as punctuation: composed text and
        // raw key text coincide
        "s*" => vec!['^'],
        other => other.chars().collect(), // a literal
    }
}

pub struct Obsv {
    pub obs: Obs,
    /// ASCII characters of the key codes pressed by this step (the "raw typed text")
    pub raw_keys: String,
    /// text of the candidate that a commit step committed
    pub committed: Option<String>,
}

pub struct ScriptExec<'a> {
    pub r: &'a mut Replayer,
    pub homes: HashMap<String, PathBuf>,
}

fn subst(parts: &Value, vars: &HashMap<String, String>) -> String {
    let mut out = String::new();
    let push = |p: &str, out: &mut String| {
        if let Some(name) = p.strip_prefix('$') {
            out.push_str(vars.get(name).map(|s| s.as_str()).unwrap_or(""));
        } else {
            out.push_str(p);
        }
    };
    match parts {
        Value::String(s) => push(s, &mut out),
        Value::Array(a) => {
            for p in a {
                if let Some(s) = p.as_str() {
                    push(s, &mut out);
                }
            }
        }
        _ => {}
    }
    out
}

impl Replayer {
    pub fn home_slot(&self, name: &str) -> PathBuf {
        let p = self.home.join(format!("slot-{}", name));
        std::fs::create_dir_all(p.join("openbangla-keyboard")).ok();
        p
    }

    pub fn mc_script(&mut self, v: &Value) {
        let variants = v["variants"].as_u64().unwrap_or(1).max(1);
        let seed = std::env::var("VERIF_SEED").ok().and_then(|s| s.parse::<u64>().ok()).unwrap_or(1);
        for variant in 0..variants {
            let mut rng = Rng(seed.wrapping_mul(0x9E3779B97F4A7C15) ^ (self.rep.behaviours << 8) ^ variant ^ 0x5555);
            rng.next();
            // concretise the variables
            let mut vars: HashMap<String, String> = HashMap::new();
            if let Some(m) = v["vars"].as_object() {
                let mut names: Vec<&String> = m.keys().collect();
                names.sort();
                for name in names {
                    let mut s = String::new();
                    for (pos, cls) in m[name].as_array().cloned().unwrap_or_default().iter().enumerate() {
                        let mem = class_members(cls.as_str().unwrap_or(""));
                        if mem.is_empty() {
                            continue;
                        }
                        // variant 0: canonical representative; others: sweep / random member
                        let c = if variant == 0 {
                            mem[0]
                        } else if variant == 1 {
                            mem[(self.rep.behaviours as usize + pos) % mem.len()]
                        } else {
                            *rng.pick(&mem)
                        };
                        s.push(c);
                    }
                    vars.insert(name.clone(), s);
                }
            }
            let reuse = v["reuse"].as_bool().unwrap_or(false);
            let mut pending: Vec<(String, String, Value)> = Vec::new();
            let ok = self.run_script_variant(v, &vars, variant, reuse, &mut pending);
            if !ok && reuse {
                // a pooled (re-used) context was involved: confirm with brand-new contexts before reporting
                pending.clear();
                self.run_script_variant(v, &vars, variant, false, &mut pending);
            }
            for (site, what, case) in pending {
                self.rep.violation(&site, &what, case);
            }
            if !ok {
                break;
            }
        }
    }

    /// returns false when a violation was recorded (stop further variants of this script)
    fn run_script_variant(&mut self, v: &Value, vars: &HashMap<String, String>, variant: u64, reuse: bool,
                          pending: &mut Vec<(String, String, Value)>) -> bool {
        let site = v["site"].as_str().unwrap_or("script").to_string();
        let allow_panic = v["allow_panic"].as_bool().unwrap_or(false);
        // fresh homes for this scenario (pooled contexts keep theirs: they never touch the user files)
        if !reuse {
            self.pool.clear();
            let _ = std::fs::remove_dir_all(&self.home);
            std::fs::create_dir_all(&self.home).ok();
        }
        let mut observations: HashMap<String, Vec<Obsv>> = HashMap::new();
        let runs = match v["runs"].as_object() {
            Some(r) => r.clone(),
            None => return true,
        };
        let mut names: Vec<String> = runs.keys().cloned().collect();
        names.sort();
        let case = |extra: Value| json!({"script": v, "vars": vars, "variant": variant, "detail": extra});
        self.last_warm_chain.clear();
        for rn in &names {
            let mut ctx: Option<Ctx> = None;
            let mut others: HashMap<u64, Ctx> = HashMap::new();
            let warm_run = v["warm"].as_str() == Some(rn.as_str());
            let cached_run = v["fresh_cache"].as_str() == Some(rn.as_str());
            let mut warm_key = String::new();
            if cached_run {
                // a brand-new context typing a text: deterministic, computed once per (cfg, text)
                let steps = runs[rn].as_array().cloned().unwrap_or_default();
                let key = format!("{}|{}", steps[0]["cfg"], subst(&steps[1]["text"], vars));
                if !self.fresh_cache.contains_key(&key) && steps.len() == 2 && steps[1]["op"] == "type" {
                    // the reference comes from an isolated process that only ever runs brand-new contexts of this configuration:
                    // nothing the contexts of THIS process did (other configurations, warm caches, statics) can reach it
                    if let Ok(cfg) = serde_json::from_value::<Cfg>(steps[0]["cfg"].clone()) {
                        let ck = steps[0]["cfg"].to_string();
                        if !self.fresh_servers.contains_key(&ck) {
                            if let Some(srv) = crate::replay::FreshServer::start(&cfg) {
                                self.fresh_servers.insert(ck.clone(), srv);
                            }
                        }
                        let text = subst(&steps[1]["text"], vars);
                        match self.fresh_servers.get_mut(&ck).and_then(|s| s.ask(&text)) {
                            Some(o) if o.kind != "panic" => {
                                self.rep.events += text.chars().count() as u64;
                                self.rep.note("isolated_fresh_reference");
                                self.fresh_cache.insert(key.clone(), o);
                            }
                            _ => {
                                // (a panic or a dead server: fall back to the in-process run below, which reports panics)
                                self.fresh_servers.remove(&ck);
                            }
                        }
                    }
                }
                if let Some(o) = self.fresh_cache.get(&key) {
                    observations.insert(rn.clone(), vec![
                        Obsv { obs: Obs { kind: "none".into(), ..Default::default() }, committed: None, raw_keys: String::new() },
                        Obsv { obs: o.clone(), committed: None, raw_keys: String::new() }]);
                    continue;
                }
            }
            let mut last = Obs { kind: "none".into(), ..Default::default() };
            let mut obsv: Vec<Obsv> = Vec::new();
            for (i, st) in runs[rn].as_array().cloned().unwrap_or_default().iter().enumerate() {
                let op = st["op"].as_str().unwrap_or("");
                let home = self.home_slot(st["home"].as_str().unwrap_or("h0"));
                let mut committed = None;
                let mut raw_keys = String::new();
                // a step addressed to another context of the same process (same configuration and user files)
                let cid = st["ctx"].as_u64().unwrap_or(1);
                if cid != 1 {
                    if let Some(main) = ctx.as_ref() {
                        if !others.contains_key(&cid) {
                            // id 2: same configuration; 3: no database directory (an empty dictionary); 4: other options
                            let mut cfg2 = main.cfg.clone();
                            match cid {
                                3 => cfg2.db = false,
                                4 => {
                                    cfg2.english = !cfg2.english;
                                    cfg2.smart = !cfg2.smart;
                                }
                                _ => {}
                            }
                            if let Ok(c2) = Ctx::new(&cfg2, &main.user_home) {
                                others.insert(cid, c2);
                            }
                        }
                    }
                    if let Some(c2) = others.get_mut(&cid) {
                        let text = subst(&st["text"], vars);
                        for chh in text.chars() {
                            if let Some(code) = self.keys.code_for_char(chh) {
                                let o2 = c2.key(code, 0, 0);
                                self.rep.events += 1;
                                if o2.kind == "panic" {
                                    pending.push(("panic".to_string(), format!("run {} step {}: second context panicked: {}", rn, i, o2.panic.unwrap_or_default()), case(json!({"run": rn, "step": i}))));
                                    return false;
                                }
                            }
                        }
                    }
                    obsv.push(Obsv { obs: Obs { kind: "none".into(), ..Default::default() }, committed: None, raw_keys: String::new() });
                    continue;
                }
                let o: Obs = match op {
                    "new" => {
                        let cfg: Cfg = serde_json::from_value(st["cfg"].clone()).unwrap_or_default();
                        if let Some(old) = ctx.take() {
                            if reuse && !old.dead {
                                let key = serde_json::to_string(&old.cfg).unwrap();
                                self.pool.insert(key, old);
                            }
                        }
                        let mut pooled = if reuse { self.pool.remove(&serde_json::to_string(&cfg).unwrap()) } else { None };
                        if warm_run {
                            // a long-lived context that has already composed the words of earlier scenarios
                            warm_key = serde_json::to_string(&cfg).unwrap();
                            if let Some((c, c2, chain)) = self.warm.remove(&warm_key) {
                                if chain.len() < 4000 {
                                    pooled = Some(c);
                                    others = c2;
                                    self.warm_chain = chain;
                                } else {
                                    self.warm_chain = Vec::new();
                                }
                            } else {
                                self.warm_chain = Vec::new();
                            }
                        }
                        if warm_run && pooled.is_none() && !others.contains_key(&3) {
                            // "while other contexts are being used in the same process": a context WITHOUT database directory exists
                            // before the long-lived one is created (whoever is created first must not decide what the other one loads)
                            let mut cfg3 = cfg.clone();
                            cfg3.db = false;
                            if let Ok(c3) = Ctx::new(&cfg3, &home) {
                                others.insert(3, c3);
                            }
                            // ... and one over ANOTHER valid database directory (a dictionary of a few words)
                            let mut cfg5 = cfg.clone();
                            cfg5.altdb = true;
                            if let Ok(c5) = Ctx::new(&cfg5, &home) {
                                others.insert(5, c5);
                            }
                        }
                        let mut made = match pooled {
                            Some(mut c) => {
                                c.finish();
                                Ok(c)
                            }
                            None => Ctx::new(&cfg, &home),
                        };
                        if warm_run && cfg.is_phonetic() {
                            // "any number of other words": the warm context composes one more never-seen word before every scenario
                            if let Ok(c) = made.as_mut() {
                                self.noise_rng.next();
                                let len = 3 + self.noise_rng.below(6);
                                let w: String = (0..len).map(|_| (b'a' + self.noise_rng.below(26) as u8) as char).collect();
                                for ch in w.chars() {
                                    let o = c.key(self.keys.code_for_char(ch).unwrap(), 0, 0);
                                    self.rep.events += 1;
                                    if o.kind == "panic" {
                                        pending.push(("panic".to_string(), format!("warm context panicked while typing {:?}: {}", w, o.panic.unwrap_or_default()), case(json!({"noise": w}))));
                                        return false;
                                    }
                                }
                                c.finish();
                                self.warm_chain.push(json!({"op": "type", "text": w}));
                                self.warm_chain.push(json!({"op": "finish"}));
                            }
                        }
                        match made {
                            Ok(c) => {
                                ctx = Some(c);
                                Obs { kind: "none".into(), ..Default::default() }
                            }
                            Err(p) => Obs { kind: "panic".into(), panic: Some(format!("creating a context: {}", p)), ..Default::default() },
                        }
                    }
                    "type" | "key" => {
                        let c = match ctx.as_mut() {
                            Some(c) => c,
                            None => return true,
                        };
                        let text = if op == "type" { subst(&st["text"], vars) } else { st["ch"].as_str().unwrap_or("").to_string() };
                        let mut o = Obs { kind: "none".into(), ..Default::default() };
                        let units: Vec<String> = if c.cfg.is_phonetic() {
                            text.chars().map(|x| x.to_string()).collect()
                        } else if let Some(a) = st["vals"].as_array() {
                            a.iter().map(|x| crate::replay::text_of(x)).collect()
                        } else {
                            text.chars().map(|x| x.to_string()).collect()
                        };
                        for u in units {
                            // the selection byte a front-end passes: the preselected index it was last shown
                            let sel = match st["sel"].as_u64() {
                                Some(n) => n as u8,
                                None => if last.kind == "full" { last.sel.min(255) as u8 } else { 0 },
                            };
                            let key = if c.cfg.is_phonetic() {
                                u.chars().next().and_then(|ch| self.keys.code_for_char(ch)).map(|k| (k, 0u8))
                            } else if c.cfg.layout == "probhat" {
                                self.probhat.key_for_value(&u)
                            } else {
                                self.synth.key_for_value(&u)
                            };
                            let (code, m) = match key {
                                Some(k) => k,
                                None => {
                                    self.rep.note("untypeable");
                                    return true;
                                }
                            };
                            o = c.key(code, m, sel);
                            if let Some(ch) = self.keys.char_for_code(code) {
                                raw_keys.push(ch);
                            }
                            self.rep.events += 1;
                            if o.kind == "panic" {
                                break;
                            }
                            last = o.clone();
                        }
                        o
                    }
                    // one key by its code (e.g. a key without a character), selection byte = the preselected index last shown
                    "keycode" => {
                        let c = match ctx.as_mut() { Some(c) => c, None => return true };
                        let sel = if last.kind == "full" { last.sel.min(255) as u8 } else { 0 };
                        let code = st["code"].as_u64().unwrap_or(0) as u16;
                        let o = c.key(code, st["mod"].as_u64().unwrap_or(0) as u8, st["sel"].as_u64().map(|n| n as u8).unwrap_or(sel));
                        self.rep.events += 1;
                        if o.kind != "panic" {
                            last = o.clone();
                        }
                        o
                    }
                    "bs" => {
                        let c = match ctx.as_mut() { Some(c) => c, None => return true };
                        let o = c.backspace(st["ctrl"].as_bool().unwrap_or(false));
                        self.rep.events += 1;
                        if o.kind != "panic" {
                            last = o.clone();
                        }
                        o
                    }
                    "commit" => {
                        let c = match ctx.as_mut() { Some(c) => c, None => return true };
                        let n = last.len();
                        if n == 0 {
                            self.rep.note("truncated:commit_without_list");
                            return true;
                        }
                        let idx = match &st["idx"] {
                            Value::Number(x) => (x.as_u64().unwrap_or(0) as usize).min(n - 1),
                            Value::String(s) if s == "other" => {
                                if n < 2 {
                                    self.rep.note("truncated:no_other_candidate");
                                    return true;
                                }
                                (last.sel + 1 + (variant as usize % (n - 1))) % n
                            }
                            Value::String(s) if s == "last" => n - 1,
                            _ => last.sel.min(n - 1),
                        };
                        committed = last.cands.get(idx).cloned();
                        let o = c.commit(idx);
                        self.rep.events += 1;
                        last = Obs { kind: "none".into(), ..Default::default() };
                        o
                    }
                    "finish" => {
                        let c = match ctx.as_mut() { Some(c) => c, None => return true };
                        self.rep.events += 1;
                        last = Obs { kind: "none".into(), ..Default::default() };
                        c.finish()
                    }
                    "update" => {
                        let c = match ctx.as_mut() { Some(c) => c, None => return true };
                        let cfg: Cfg = serde_json::from_value(st["cfg"].clone()).unwrap_or_default();
                        self.rep.events += 1;
                        c.update(&cfg)
                    }
                    "write" => {
                        let f = home.join("openbangla-keyboard").join(if st["file"] == "ac" { "autocorrect.json" } else { "phonetic-candidate-selection.json" });
                        let content = subst(&st["content"], vars);
                        let _ = std::fs::write(&f, content.as_bytes());
                        if let Some(t) = st["mtime"].as_u64() {
                            if let Ok(file) = std::fs::OpenOptions::new().write(true).open(&f) {
                                let _ = file.set_modified(std::time::UNIX_EPOCH + std::time::Duration::from_secs(1_700_000_000 + t));
                            }
                        }
                        Obs { kind: "none".into(), ..Default::default() }
                    }
                    "remove" => {
                        let f = home.join("openbangla-keyboard").join(if st["file"] == "ac" { "autocorrect.json" } else { "phonetic-candidate-selection.json" });
                        let _ = std::fs::remove_file(&f);
                        Obs { kind: "none".into(), ..Default::default() }
                    }
                    "rmdir" => {
                        let _ = std::fs::remove_dir_all(home.join("openbangla-keyboard"));
                        Obs { kind: "none".into(), ..Default::default() }
                    }
                    "blockdir" => {
                        // an unwritable user-data directory: its path is occupied by a regular file
                        let d = home.join("openbangla-keyboard");
                        let _ = std::fs::remove_dir_all(&d);
                        let _ = std::fs::write(&d, b"not a directory");
                        Obs { kind: "none".into(), ..Default::default() }
                    }
                    _ => Obs { kind: "none".into(), ..Default::default() },
                };
                if o.kind == "panic" && !allow_panic {
                    pending.push((
                        "panic".to_string(),
                        format!("run {} step {} ({}): engine panicked: {}", rn, i, op, o.panic.clone().unwrap_or_default()),
                        case(json!({"run": rn, "step": i})),
                    ));
                    return false;
                }
                if o.kind == "panic" {
                    ctx = None;
                }
                obsv.push(Obsv { obs: o, committed, raw_keys });
            }
            if cached_run && obsv.len() == 2 && obsv[1].obs.kind != "panic" {
                let steps = runs[rn].as_array().cloned().unwrap_or_default();
                let key = format!("{}|{}", steps[0]["cfg"], subst(&steps[1]["text"], vars));
                self.fresh_cache.insert(key, obsv[1].obs.clone());
            }
            if warm_run {
                // remember what this context has been through (the replay of a violation needs all of it)
                for st in runs[rn].as_array().cloned().unwrap_or_default().iter().skip(1) {
                    let mut st = st.clone();
                    if st.get("text").is_some() {
                        st["text"] = Value::String(subst(&st["text"], vars));
                    }
                    self.warm_chain.push(st);
                }
                self.warm_chain.push(json!({"op": "finish"}));
                if let Some(mut c) = ctx.take() {
                    if !c.dead {
                        c.finish();
                        let mut c2 = std::mem::take(&mut others);
                        for o in c2.values_mut() {
                            o.finish();
                        }
                        let chain = std::mem::take(&mut self.warm_chain);
                        self.last_warm_chain = chain.clone();
                        self.warm.insert(warm_key.clone(), (c, c2, chain));
                    }
                }
            }
            observations.insert(rn.clone(), obsv);
            if let Some(old) = ctx.take() {
                if reuse && !old.dead {
                    let key = serde_json::to_string(&old.cfg).unwrap();
                    self.pool.insert(key, old);
                }
            }
        }
        // ---- checks
        let get = |r: &Value| -> Option<&Obsv> {
            let run = r[0].as_str()?;
            let i = r[1].as_u64()? as usize;
            observations.get(run)?.get(i)
        };
        let seltext = |o: &Obs| -> Option<String> {
            match o.kind.as_str() {
                "full" => o.cands.get(o.sel).cloned(),
                "single" => o.cands.get(0).cloned(),
                _ => None,
            }
        };
        let mut nontrivial = false;
        for ch in v["checks"].as_array().cloned().unwrap_or_default() {
            let k = ch["k"].as_str().unwrap_or("");
            self.rep.compared += 1;
            let bad: Option<String> = match k {
                "eq" => match (get(&ch["a"]), get(&ch["b"])) {
                    (Some(a), Some(b)) => {
                        let f = ch["f"].as_str().unwrap_or("render");
                        let same = match f {
                            "cands" => a.obs.cands == b.obs.cands && a.obs.kind == b.obs.kind,
                            "seltext" => seltext(&a.obs) == seltext(&b.obs),
                            _ => a.obs.rendering() == b.obs.rendering(),
                        };
                        nontrivial = nontrivial || a.obs.kind == "full" || a.obs.kind == "single";
                        if same { None } else {
                            Some(format!("{} differs: {:?}/{} sel={} {:?} ongoing={}  vs  {:?}/{} sel={} {:?} ongoing={}", f,
                                         ch["a"], a.obs.kind, a.obs.sel, a.obs.cands, a.obs.ongoing, ch["b"], b.obs.kind, b.obs.sel, b.obs.cands, b.obs.ongoing))
                        }
                    }
                    _ => None,
                },
                "uncurl" => match (get(&ch["on"]), get(&ch["off"])) {
                    (Some(on), Some(off)) => {
                        nontrivial = true;
                        let a: Vec<String> = on.obs.cands.iter().map(|s| uncurl(s)).collect();
                        if on.obs.kind != off.obs.kind || a != off.obs.cands || on.obs.sel != off.obs.sel {
                            Some(format!("smart quotes on {:?} sel={} is not the curled form of off {:?} sel={}", on.obs.cands, on.obs.sel, off.obs.cands, off.obs.sel))
                        } else { None }
                    }
                    _ => None,
                },
                "curl" => match (get(&ch["on"]), get(&ch["off"])) {
                    (Some(on), Some(off)) => {
                        nontrivial = true;
                        let parts: Vec<String> = ch["parts"].as_array().cloned().unwrap_or_default().iter().map(|p| subst(p, vars)).collect();
                        let tr = ch["translit"].as_bool().unwrap_or(false);
                        // the raw typed text: the typed characters (phonetic) / the raw key characters (fixed)
                        let raw: String = if tr { parts.concat() } else { off.raw_keys.clone() };
                        let (pt, qt) = if tr {
                            (self.oracles().translit(&parts[0]), self.oracles().translit(&parts[2]))
                        } else {
                            (parts[0].clone(), parts[2].clone())
                        };
                        let open = |s: &str| -> String { s.chars().map(|c| match c { '\'' => '\u{2018}', '"' => '\u{201C}', o => o }).collect() };
                        let close = |s: &str| -> String { s.chars().map(|c| match c { '\'' => '\u{2019}', '"' => '\u{201D}', o => o }).collect() };
                        let mut bad = None;
                        if on.obs.kind != off.obs.kind || on.obs.cands.len() != off.obs.cands.len() || on.obs.sel != off.obs.sel {
                            bad = Some(format!("typed {:?}: option on gives {} {:?} sel={}, off gives {} {:?} sel={}", raw, on.obs.kind, on.obs.cands, on.obs.sel, off.obs.kind, off.obs.cands, off.obs.sel));
                        } else {
                            for (ci, (a, b)) in on.obs.cands.iter().zip(off.obs.cands.iter()).enumerate() {
                                // (fixed method: the first candidate is the composed text - curled like any other - even when it
                                // coincides with the raw key text; the raw-key candidate proper comes last)
                                let expected = if ch["wordempty"].as_bool().unwrap_or(false) || (*b == raw && (tr || ci > 0)) {
                                    b.clone() // punctuation-only text and the raw typed text stay untouched
                                } else if b.starts_with(&pt) && b.ends_with(&qt) && b.len() >= pt.len() + qt.len() {
                                    format!("{}{}{}", open(&pt), &b[pt.len()..b.len() - qt.len()], close(&qt))
                                } else if uncurl(a) == *b {
                                    a.clone() // a candidate not built from the wrapping (nothing to say beyond Uncurl-equality)
                                } else {
                                    b.clone()
                                };
                                if *a != expected {
                                    bad = Some(format!("typed {:?}: candidate {:?} (option off) must become {:?} with the option on, got {:?}", raw, b, expected, a));
                                    break;
                                }
                            }
                        }
                        bad
                    }
                    _ => None,
                },
                "translit" => match get(&ch["at"]) {
                    Some(o) => {
                        let parts: Vec<String> = ch["parts"].as_array().cloned().unwrap_or_default().iter().map(|p| subst(p, vars)).collect();
                        let exp: String = parts.iter().map(|p| self.oracles().translit(p)).collect();
                        nontrivial = true;
                        if ch["mode"] == "cand" {
                            if o.obs.kind == "full" && !o.obs.cands.iter().any(|c| uncurl(c) == exp) {
                                Some(format!("typed parts {:?}: the transliteration {:?} is not among the candidates {:?}", parts, exp, o.obs.cands))
                            } else { None }
                        } else {
                            let got = if o.obs.kind == "empty" { String::new() } else { o.obs.cands.get(0).cloned().unwrap_or_default() };
                            if o.obs.kind == "full" || got != exp {
                                Some(format!("typed parts {:?}: returned {:?} ({}), Avro transliteration of the parts is {:?}", parts, got, o.obs.kind, exp))
                            } else { None }
                        }
                    }
                    None => None,
                },
                "committed_is_selected" => match (get(&ch["commit"]), get(&ch["at"])) {
                    // the candidate text committed earlier is the one at the preselected index now
                    (Some(c), Some(o)) => {
                        nontrivial = true;
                        match (&c.committed, seltext(&o.obs)) {
                            (Some(t), Some(s)) if *t == s => None,
                            (Some(t), s) => Some(format!("committed {:?}, but re-typing preselects {:?} (list {:?}, index {})", t, s, o.obs.cands, o.obs.sel)),
                            _ => None,
                        }
                    }
                    _ => None,
                },
                "store_ok" => {
                    let home = self.home_slot(ch["home"].as_str().unwrap_or("h0"));
                    let f = home.join("openbangla-keyboard/phonetic-candidate-selection.json");
                    match std::fs::read(&f) {
                        Err(_) => None,
                        Ok(bytes) => match serde_json::from_slice::<HashMap<String, String>>(&bytes) {
                            Ok(_) => None,
                            Err(e) => Some(format!("the on-disk store is not a JSON object of strings: {}", e)),
                        },
                    }
                }
                _ => None,
            };
            if let Some(b) = bad {
                let mut cs = case(json!({"check": ch}));
                if !self.last_warm_chain.is_empty() {
                    cs["warm_context_history"] = Value::Array(self.last_warm_chain.clone());
                }
                pending.push((site.clone(), b, cs));
                return false;
            }
        }
        if nontrivial {
            self.rep.nontrivial += 1;
        }
        if self.rep.samples.len() < 3 {
            let runs_short: Vec<String> = names.iter().map(|n| format!("{}: {} steps", n, runs[n].as_array().map(|a| a.len()).unwrap_or(0))).collect();
            let kinds: Vec<String> = v["checks"].as_array().cloned().unwrap_or_default().iter().map(|c| c["k"].as_str().unwrap_or("").to_string()).collect();
            self.rep.sample(json!({"site": site, "vars": vars, "runs": runs_short, "checks": kinds, "first_run": runs[&names[0]]}));
        }
        true
    }
}
