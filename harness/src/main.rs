use rv::engine::install_quiet_panic_hook;
use std::path::PathBuf;

fn arg(args: &[String], name: &str) -> Option<String> {
    args.iter().position(|a| a == name).and_then(|i| args.get(i + 1).cloned())
}

fn main() {
    let args: Vec<String> = std::env::args().collect();
    if args.len() < 2 {
        eprintln!("usage: rv <replay|record|...> [options]");
        std::process::exit(2);
    }
    install_quiet_panic_hook();
    match args[1].as_str() {
        "replay" => {
            let prop = arg(&args, "--property").unwrap_or_else(|| "C00".into());
            let dir = arg(&args, "--replay-dir").map(PathBuf::from);
            let log = arg(&args, "--tlc-log");
            let threads = arg(&args, "--threads").and_then(|s| s.parse().ok()).unwrap_or(8usize);
            let rep = rv::replay::Replayer::run_stdin_parallel(&prop, dir, log.as_deref(), threads);
            rep.finish();
        }
        other => {
            eprintln!("rv: unknown subcommand {}", other);
            std::process::exit(2);
        }
    }
}
