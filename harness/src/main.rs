use rv::engine::install_quiet_panic_hook;
use std::path::PathBuf;

fn arg(args: &[String], name: &str) -> Option<String> {
    args.iter().position(|a| a == name).and_then(|i| args.get(i + 1).cloned())
}

fn main() {
    let args: Vec<String> = std::env::args().collect();
    if args.len() < 2 {
        eprintln!("usage: rv <replay|record|...> [options]");
        std::process::exit(2);
    }
    install_quiet_panic_hook();
    match args[1].as_str() {
        "replay" => {
            let prop = arg(&args, "--property").unwrap_or_else(|| "C00".into());
            let dir = arg(&args, "--replay-dir").map(PathBuf::from);
            let log = arg(&args, "--tlc-log");
            let threads = arg(&args, "--threads").and_then(|s| s.parse().ok()).unwrap_or(8usize);
            let rep = rv::replay::Replayer::run_stdin_parallel(&prop, dir, log.as_deref(), threads);
            rep.finish();
        }
        "replay-file" => {
            // plain JSON lines (already extracted); single-threaded - used under valgrind
            let prop = arg(&args, "--property").unwrap_or_else(|| "C00".into());
            let path = arg(&args, "--in").unwrap();
            let home = rv::engine::scratch_home("replayfile");
            let mut r = rv::replay::Replayer::new(&prop, None, home.clone());
            // (not under valgrind, which reports the memory error itself and must see the process continue)
            if std::env::var("RV_NO_CRASH_HANDLER").is_err() {
                rv::crash::install(&prop, arg(&args, "--replay-dir").map(PathBuf::from).as_deref());
                rv::crash::bind_thread(0);
            }
            for line in std::fs::read_to_string(&path).unwrap().lines() {
                if let Ok(v) = serde_json::from_str::<serde_json::Value>(line) {
                    rv::crash::set_current(Some(line));
                    r.behaviour(&v);
                    rv::crash::set_current(None);
                }
            }
            let _ = std::fs::remove_dir_all(&home);
            r.rep.finish();
            drop(r);
        }
        // data tables of the dependencies, for the specifications that enumerate them: the emoticons that hold a quote character
        "dump-tables" => {
            let out = arg(&args, "--out").unwrap();
            let or = rv::oracles::Oracles::load();
            let mut emo: Vec<&str> = or.emoticons.keys().copied().filter(|e| e.contains('\'') || e.contains('"')).collect();
            emo.sort();
            let v: Vec<Vec<String>> = emo.iter().map(|e| e.chars().map(|c| c.to_string()).collect()).collect();
            let text = serde_json::to_string(&v).unwrap();
            if std::fs::read_to_string(&out).ok().as_deref() != Some(text.as_str()) {
                let tmp = format!("{}.tmp.{}", out, std::process::id());
                std::fs::write(&tmp, &text).unwrap();
                std::fs::rename(&tmp, &out).unwrap();
            }
            println!("RV-DUMPED {}", v.len());
        }
        "fresh-server" => {
            // An isolated reference: this process only ever creates brand-new contexts of ONE configuration, types one text into each
            // and prints the rendering.  Nothing another context of another configuration did can reach it (statics, thread-locals).
            use std::io::{BufRead, Write};
            let cfg: rv::engine::Cfg = serde_json::from_str(&arg(&args, "--cfg").unwrap()).unwrap();
            let keys = rv::keys::Keys::load();
            let home = rv::engine::scratch_home("freshsrv");
            let stdin = std::io::stdin();
            let mut out = std::io::stdout();
            for line in stdin.lock().lines() {
                let line = match line { Ok(l) => l, Err(_) => break };
                let text: String = serde_json::from_str(&line).unwrap_or_default();
                rv::engine::clean_home(&home);
                let mut last = rv::engine::Obs { kind: "none".into(), ..Default::default() };
                match rv::engine::Ctx::new(&cfg, &home) {
                    Ok(mut c) => {
                        for ch in text.chars() {
                            if let Some(code) = keys.code_for_char(ch) {
                                last = c.key(code, 0, 0);
                                if last.kind == "panic" { break; }
                            }
                        }
                    }
                    Err(p) => last = rv::engine::Obs { kind: "panic".into(), panic: Some(p), ..Default::default() },
                }
                let _ = writeln!(out, "{}", serde_json::to_string(&last).unwrap());
                let _ = out.flush();
            }
            let _ = std::fs::remove_dir_all(&home);
        }
        "record" => {
            let driver = arg(&args, "--driver").unwrap_or_default();
            let out = arg(&args, "--out").unwrap();
            let rounds: usize = arg(&args, "--rounds").and_then(|s| s.parse().ok()).unwrap_or(10);
            let seed: u64 = arg(&args, "--seed").and_then(|s| s.parse().ok()).unwrap_or(1);
            let mut r = rv::record::Recorder::new(&out, seed);
            match driver.as_str() {
                "store" => r.driver_store(rounds),
                "session" => {
                    let shard: usize = arg(&args, "--shard").and_then(|s| s.parse().ok()).unwrap_or(0);
                    let shards: usize = arg(&args, "--shards").and_then(|s| s.parse().ok()).unwrap_or(1);
                    r.driver_session(rounds, shard, shards);
                }
                "shadow" => {
                    let shard: usize = arg(&args, "--shard").and_then(|s| s.parse().ok()).unwrap_or(0);
                    let shards: usize = arg(&args, "--shards").and_then(|s| s.parse().ok()).unwrap_or(1);
                    r.driver_shadow(rounds, shard, shards);
                }
                "enc" => {
                    let shard: usize = arg(&args, "--shard").and_then(|s| s.parse().ok()).unwrap_or(0);
                    let shards: usize = arg(&args, "--shards").and_then(|s| s.parse().ok()).unwrap_or(1);
                    let quick = arg(&args, "--tier").map(|t| t != "thorough").unwrap_or(true);
                    r.driver_enc(shard, shards, quick);
                }
                "fcands" => {
                    let shard: usize = arg(&args, "--shard").and_then(|s| s.parse().ok()).unwrap_or(0);
                    let shards: usize = arg(&args, "--shards").and_then(|s| s.parse().ok()).unwrap_or(1);
                    let quick = arg(&args, "--tier").map(|t| t != "thorough").unwrap_or(true);
                    r.driver_fcands(shard, shards, quick);
                }
                "cands" => {
                    let shard: usize = arg(&args, "--shard").and_then(|s| s.parse().ok()).unwrap_or(0);
                    let shards: usize = arg(&args, "--shards").and_then(|s| s.parse().ok()).unwrap_or(1);
                    let quick = arg(&args, "--tier").map(|t| t != "thorough").unwrap_or(true);
                    let corpus_seed: u64 = arg(&args, "--corpus-seed").and_then(|s| s.parse().ok()).unwrap_or(1);
                    let texts = rv::record::cands_corpus(&r.or, quick, corpus_seed);
                    r.driver_cands(&texts, shard, shards);
                    r.driver_cands_userac(shard, shards);
                }
                d => {
                    eprintln!("rv: unknown driver {}", d);
                    std::process::exit(2);
                }
            }
            use std::io::Write;
            r.out.flush().unwrap();
            let _ = std::fs::remove_dir_all(&r.home);
            println!("RV-RECORDED {}", r.n);
        }
        other => {
            eprintln!("rv: unknown subcommand {}", other);
            std::process::exit(2);
        }
    }
}
