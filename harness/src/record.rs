//! impl -> spec: drivers that run the real engine and record ndjson traces for TLC trace validation.
//! One object per API call, written after the call returned.  The recorder abstracts (texts as arrays
//! of one-code-point strings, facts from the oracles); it never evaluates a property.

use crate::engine::*;
use crate::keys::*;
use crate::oracles::*;
use crate::script::Rng;
use serde_json::{json, Value};
use std::io::Write;

pub fn chars(s: &str) -> Value {
    Value::Array(s.chars().map(|c| Value::String(c.to_string())).collect())
}

/// Progress of the recorder (events written, time of the last one): a watchdog ends a recording whose driver is stuck in
/// an engine call, appending a `panic` event ("hang") so that the trace specification rejects the trace there.
pub static PROGRESS: std::sync::Mutex<Option<(std::time::Instant, u64, String)>> = std::sync::Mutex::new(None);

pub fn start_record_watchdog() {
    std::thread::spawn(|| loop {
        std::thread::sleep(std::time::Duration::from_secs(2));
        let stuck = {
            let g = PROGRESS.lock().unwrap();
            g.as_ref().filter(|(t, _, _)| t.elapsed().as_secs() >= 180).map(|(_, n, p)| (*n, p.clone()))
        };
        if let Some((n, path)) = stuck {
            use std::io::Write;
            if let Ok(mut f) = std::fs::OpenOptions::new().append(true).open(&path) {
                let _ = writeln!(f, "{}", json!({"ev": "panic", "kind": "panic", "typed": [], "what": "an engine call did not return within 180 s (hang / unbounded time)", "panic": "hang"}));
            }
            println!("RV-RECORDED {}", n + 1);
            let _ = std::io::stdout().flush();
            std::process::exit(0);
        }
    });
}

pub struct Recorder {
    pub out: std::io::BufWriter<std::fs::File>,
    pub n: u64,
    pub keys: Keys,
    pub or: Oracles,
    pub rng: Rng,
    pub home: std::path::PathBuf,
    /// pass ANOTHER valid index than the preselected one as selection byte (what a front-end does after the user moved the
    /// highlight): on punctuation keys the byte is echoed back, so the reported index then differs from the computed one
    pub alt_sel: bool,
}

pub const BASE_WORDS: &[&str] = &[
    "as", "onno", "amar", "ami", "tumi", "sesh", "kkhet", "form", "apni", "bangla", "dhaka", "kotha", "bhalo", "mon", "din",
    "rat", "boi", "hothat", "ebong", "kintu", "tai", "jodi", "tobe", "shob", "kaj", "gan", "computer", "academy", "desh", "manush",
    "cool", "smile", "atm", "i", "a", "e", "o", "chup", "nam", "pani",
];
pub const SUFFIX_SAMPLE: &[&str] = &["e", "er", "gulo", "ra", "ke", "ta", "ti", "i", "o", "r", "te", "der", "guli", "mala", "tao", "tai", "eo"];

impl Recorder {
    pub fn new(path: &str, seed: u64) -> Recorder {
        *PROGRESS.lock().unwrap() = Some((std::time::Instant::now(), 0, path.to_string()));
        start_record_watchdog();
        let file = std::fs::File::create(path).unwrap();
        {
            use std::os::unix::io::AsRawFd;
            crate::crash::install_recorder(file.as_raw_fd());
        }
        Recorder {
            out: std::io::BufWriter::new(file),
            n: 0,
            keys: Keys::load(),
            or: Oracles::load(),
            rng: Rng(seed.wrapping_mul(0x9E3779B97F4A7C15) | 1),
            home: scratch_home("record"),
            alt_sel: false,
        }
    }
    pub fn emit(&mut self, v: Value) {
        writeln!(self.out, "{}", serde_json::to_string(&v).unwrap()).unwrap();
        let _ = self.out.flush();
        self.n += 1;
        crate::crash::recorder_progress(self.n);
        if let Some(p) = PROGRESS.lock().unwrap().as_mut() {
            p.0 = std::time::Instant::now();
            p.1 = self.n;
        }
    }
    /// type a phonetic text, passing the preselected index last shown as selection byte
    pub fn type_text(&self, c: &mut Ctx, text: &str) -> Obs {
        self.type_text_sel(c, text).0
    }
    /// ... also returns the selection byte that was passed with the final key
    pub fn type_text_sel(&self, c: &mut Ctx, text: &str) -> (Obs, usize) {
        let mut last = Obs { kind: "none".into(), ..Default::default() };
        let mut psel = 0usize;
        for ch in text.chars() {
            let code = self.keys.code_for_char(ch).unwrap();
            let sel = if last.kind != "full" { 0 }
                      else if self.alt_sel && last.cands.len() >= 2 { ((last.sel + 1) % last.cands.len()).min(255) as u8 }
                      else { last.sel.min(255) as u8 };
            psel = sel as usize;
            last = c.key(code, 0, sel);
            if last.kind == "panic" {
                break;
            }
        }
        (last, psel)
    }
    pub fn store_state(&self, home: &std::path::Path) -> &'static str {
        let f = home.join("openbangla-keyboard/phonetic-candidate-selection.json");
        match std::fs::read(&f) {
            Err(_) => "absent",
            Ok(b) => match serde_json::from_slice::<std::collections::HashMap<String, String>>(&b) {
                Ok(_) => "valid",
                Err(_) => "invalid",
            },
        }
    }

    fn emit_list(&mut self, typed: &str, o: &Obs, psel: usize, smart: bool) {
        let tc: Vec<char> = typed.chars().collect();
        let tlp: Vec<Value> = (0..=tc.len()).map(|k| chars(&self.or.translit(&tc[..k].iter().collect::<String>()))).collect();
        let tls: Vec<Value> = (0..=tc.len()).map(|k| chars(&self.or.translit(&tc[tc.len() - k..].iter().collect::<String>()))).collect();
        self.emit(json!({"ev": "list", "typed": chars(typed), "cands": o.cands.iter().map(|c| chars(c)).collect::<Vec<_>>(),
                         "sel": o.sel, "psel": psel, "tlp": tlp, "tls": tls, "smart": smart}));
    }

    /// C09 driver: commit-heavy sessions with restarts, re-typing, suffixed re-typing, wrapping punctuation.
    pub fn driver_store(&mut self, rounds: usize) {
        // (incl. a quote with other punctuation between it and the word, on either side: `"(w)"`, `"w."`, `'[w]?'`)
        let punct_lead = ["", "", "(", "\"", "'", "[", "*", "\"'", "\"(", "(\"", "'["];
        let punct_trail = ["", "", ")", "\"", "'", ".", "!", "?", ",", "'\"", "]", ":", ":)", ".\"", ")\"", "\".", "]?'"];
        for round in 0..rounds {
            let smart = self.rng.below(2) == 0;
            let cfg = Cfg { layout: "phonetic".into(), psug: true, english: self.rng.below(2) == 0, smart, db: true, ..Default::default() };
            clean_home(&self.home);
            self.emit(json!({"ev": "reset", "round": round, "cfg": cfg}));
            let mut ctx = Ctx::new(&cfg, &self.home).unwrap();
            let mut learned: Vec<(String, String, String)> = Vec::new(); // (lead, word, trail) typed with a learning commit
            // directed: learn a base, look at base + suffix, change the learned choice of the base, look at base + suffix again
            if self.rng.below(2) == 0 {
                let w = self.rng.pick(BASE_WORDS).to_string();
                let sfx = self.rng.pick(SUFFIX_SAMPLE).to_string();
                let mut first_idx = None;
                for pass in 0..2 {
                    let (o, _) = self.type_text_sel(&mut ctx, &w);
                    if o.kind != "full" || o.cands.len() < 3 {
                        if o.kind != "panic" { ctx.finish(); self.emit(json!({"ev": "finish"})); }
                        break;
                    }
                    self.emit_list(&w, &o, 0, smart);
                    let n = o.cands.len();
                    let mut idx = (o.sel + 1 + self.rng.below(n - 1)) % n;
                    if Some(idx) == first_idx { idx = (idx + 1) % n; if idx == o.sel { idx = (idx + 1) % n; } }
                    first_idx.get_or_insert(idx);
                    let oc = ctx.commit(idx);
                    self.emit(json!({"ev": "commit", "idx": idx, "panic": oc.panic.clone().unwrap_or_default()}));
                    if oc.kind == "panic" { ctx = Ctx::new(&cfg, &self.home).unwrap(); self.emit(json!({"ev": "restart"})); break; }
                    let st = self.store_state(&self.home);
                    self.emit(json!({"ev": "file", "state": st}));
                    let t2 = format!("{}{}", w, sfx);
                    let (o2, psel2) = self.type_text_sel(&mut ctx, &t2);
                    if o2.kind == "full" { self.emit_list(&t2, &o2, psel2, smart); }
                    if o2.kind != "panic" { ctx.finish(); }
                    self.emit(json!({"ev": "finish"}));
                    let _ = pass;
                }
            }
            // directed: learn a word, commit another candidate for the word followed by a colon (a different word: the colon
            // is typed text, not wrapping), type the first word again
            if self.rng.below(3) == 0 {
                let w = self.rng.pick(BASE_WORDS).to_string();
                for (k, text) in [w.clone(), format!("{}:", w), w.clone()].into_iter().enumerate() {
                    let (o, psel) = self.type_text_sel(&mut ctx, &text);
                    if o.kind != "full" {
                        if o.kind != "panic" { ctx.finish(); }
                        self.emit(json!({"ev": "finish"}));
                        if o.kind == "panic" { ctx = Ctx::new(&cfg, &self.home).unwrap(); self.emit(json!({"ev": "restart"})); }
                        break;
                    }
                    self.emit_list(&text, &o, psel, smart);
                    let n = o.cands.len();
                    if k == 2 || n < 2 {
                        ctx.finish();
                        self.emit(json!({"ev": "finish"}));
                        continue;
                    }
                    let idx = (o.sel + 1 + self.rng.below(n - 1)) % n;
                    let oc = ctx.commit(idx);
                    self.emit(json!({"ev": "commit", "idx": idx, "panic": oc.panic.clone().unwrap_or_default()}));
                    if oc.kind == "panic" { ctx = Ctx::new(&cfg, &self.home).unwrap(); self.emit(json!({"ev": "restart"})); break; }
                    let st = self.store_state(&self.home);
                    self.emit(json!({"ev": "file", "state": st}));
                }
            }
            for _ in 0..(6 + self.rng.below(6)) {
                let action = self.rng.below(10);
                let (lead, word, trail) = if action < 3 && !learned.is_empty() {
                    // re-type a learned text (same wrapping, another wrapping, or with a suffix)
                    let (l, w, t) = self.rng.pick(&learned).clone();
                    match self.rng.below(4) {
                        0 => (l, w, t),
                        1 => (self.rng.pick(&punct_lead).to_string(), w, self.rng.pick(&punct_trail).to_string()),
                        _ => (l, format!("{}{}", w, self.rng.pick(SUFFIX_SAMPLE)), t),
                    }
                } else {
                    (self.rng.pick(&punct_lead).to_string(), self.rng.pick(BASE_WORDS).to_string(), self.rng.pick(&punct_trail).to_string())
                };
                if self.rng.below(6) == 0 {
                    drop(ctx);
                    ctx = Ctx::new(&cfg, &self.home).unwrap();
                    self.emit(json!({"ev": "restart"}));
                }
                let typed = format!("{}{}{}", lead, word, trail);
                let (o, psel) = self.type_text_sel(&mut ctx, &typed);
                if o.kind == "panic" {
                    self.emit(json!({"ev": "panic", "typed": chars(&typed), "what": o.panic.clone().unwrap_or_default()}));
                    ctx = Ctx::new(&cfg, &self.home).unwrap();
                    self.emit(json!({"ev": "restart"}));
                    continue;
                }
                if o.kind != "full" {
                    self.emit(json!({"ev": "finish"}));
                    ctx.finish();
                    continue;
                }
                // facts for the spec (which part is punctuation is the spec's call): okkhor transliteration of
                // every prefix and every suffix of the typed text
                let tc: Vec<char> = typed.chars().collect();
                let tlp: Vec<Value> = (0..=tc.len()).map(|k| chars(&self.or.translit(&tc[..k].iter().collect::<String>()))).collect();
                let tls: Vec<Value> = (0..=tc.len()).map(|k| chars(&self.or.translit(&tc[tc.len() - k..].iter().collect::<String>()))).collect();
                self.emit(json!({"ev": "list", "typed": chars(&typed), "cands": o.cands.iter().map(|c| chars(c)).collect::<Vec<_>>(),
                                 "sel": o.sel, "psel": psel, "tlp": tlp, "tls": tls, "smart": smart}));
                let n = o.cands.len();
                // a non-preselected index in half of the cases; when something learned / derived is preselected, go back to index 0 often
                let idx = if o.sel != 0 && o.sel < n && self.rng.below(2) == 0 { 0 }
                          else if self.rng.below(2) == 0 && n > 1 { (o.sel + 1 + self.rng.below(n - 1)) % n } else { o.sel.min(n - 1) };
                let oc = ctx.commit(idx);
                self.emit(json!({"ev": "commit", "idx": idx, "panic": oc.panic.clone().unwrap_or_default()}));
                if oc.kind == "panic" {
                    ctx = Ctx::new(&cfg, &self.home).unwrap();
                    self.emit(json!({"ev": "restart"}));
                    continue;
                }
                if idx != o.sel {
                    learned.push((lead.clone(), word.clone(), trail.clone()));
                }
                let st = self.store_state(&self.home);
                self.emit(json!({"ev": "file", "state": st}));
                // after a learning commit: often type the same text again right away (same or restarted context)
                if idx != o.sel && self.rng.below(10) < 6 {
                    if self.rng.below(4) == 0 {
                        drop(ctx);
                        ctx = Ctx::new(&cfg, &self.home).unwrap();
                        self.emit(json!({"ev": "restart"}));
                    }
                    let (o2, psel2) = self.type_text_sel(&mut ctx, &typed);
                    if o2.kind == "panic" {
                        self.emit(json!({"ev": "panic", "typed": chars(&typed), "what": o2.panic.clone().unwrap_or_default()}));
                        ctx = Ctx::new(&cfg, &self.home).unwrap();
                        self.emit(json!({"ev": "restart"}));
                        continue;
                    }
                    if o2.kind == "full" {
                        let tc: Vec<char> = typed.chars().collect();
                        let tlp: Vec<Value> = (0..=tc.len()).map(|k| chars(&self.or.translit(&tc[..k].iter().collect::<String>()))).collect();
                        let tls: Vec<Value> = (0..=tc.len()).map(|k| chars(&self.or.translit(&tc[tc.len() - k..].iter().collect::<String>()))).collect();
                        self.emit(json!({"ev": "list", "typed": chars(&typed), "cands": o2.cands.iter().map(|c| chars(c)).collect::<Vec<_>>(),
                                         "sel": o2.sel, "psel": psel2, "tlp": tlp, "tls": tls, "smart": smart}));
                    }
                    self.emit(json!({"ev": "finish"}));
                    ctx.finish();
                }
            }
        }
    }
}

// ------------------------------------------------------------------------------------------------
// Candidate-list driver (C07, C08, C16, C18 phonetic part; C03 candidate clause)

pub fn is_emoji_like(s: &str) -> bool {
    // anything outside ASCII and the Bengali block / general punctuation
    s.chars().any(|c| {
        let u = c as u32;
        u >= 0x2100 && !(0x2018..=0x201D).contains(&u) && u != 0x200C && u != 0x200D
    })
}

impl Recorder {
    /// The word the facts are computed for: the typed text without leading / trailing characters of the
    /// statement's punctuation set.  This is only a PROPOSAL: the trace specification compares it with
    /// its own split and skips the fact-based clauses when they differ (texts with colon / back-tick).
    fn proposed_word(typed: &str) -> (usize, usize) {
        let cs: Vec<char> = typed.chars().collect();
        let meta: Vec<char> = crate::script::META.chars().collect();
        let mut a = 0;
        while a < cs.len() && meta.contains(&cs[a]) {
            a += 1;
        }
        let mut b = cs.len();
        while b > a && meta.contains(&cs[b - 1]) {
            b -= 1;
        }
        (a, b)
    }

    fn directs(&self, word: &str, user_ac: &std::collections::HashMap<String, String>, cache: &mut std::collections::HashMap<String, Value>) -> Value {
        if let Some(v) = cache.get(word) {
            return v.clone();
        }
        let tl = self.or.translit(word);
        let mut out = Vec::new();
        let ac = user_ac.get(word).map(|s| (s, "user")).or_else(|| self.or.autocorrect.get(word).map(|s| (s, "sys")));
        if let Some((a, who)) = ac {
            out.push(json!({"t": chars(&self.or.translit(a)), "dist": 0, "ac": who}));
        }
        for m in self.or.dict_matches(word) {
            out.push(json!({"t": chars(&m), "dist": levenshtein(&tl, &m) * 10, "ac": ""}));
        }
        let v = Value::Array(out);
        cache.insert(word.to_string(), v.clone());
        v
    }

    /// bases of the proposed word (every split into base + known suffix key)
    pub fn bases_of(&self, typed: &str) -> Vec<String> {
        let tc: Vec<char> = typed.chars().collect();
        let (a, b) = Self::proposed_word(typed);
        let wc = &tc[a..b];
        let mut out = Vec::new();
        if wc.len() > 2 {
            for i in 1..wc.len() {
                let key: String = wc[i..].iter().collect();
                if self.or.suffix.contains_key(&key) {
                    out.push(wc[..i].iter().collect());
                }
            }
        }
        out
    }

    pub fn plist_event(&self, typed: &str, cfg: &Cfg, o: &Obs, user_ac: &std::collections::HashMap<String, String>,
                       cache: &mut std::collections::HashMap<String, Value>, offered: &std::collections::HashMap<String, Vec<String>>) -> Value {
        let tc: Vec<char> = typed.chars().collect();
        let tlp: Vec<Value> = (0..=tc.len()).map(|k| chars(&self.or.translit(&tc[..k].iter().collect::<String>()))).collect();
        let tls: Vec<Value> = (0..=tc.len()).map(|k| chars(&self.or.translit(&tc[tc.len() - k..].iter().collect::<String>()))).collect();
        let (a, b) = Self::proposed_word(typed);
        let word: String = tc[a..b].iter().collect();
        let directs = self.directs(&word, user_ac, cache);
        // every split of the word into base + known suffix key
        let wc: Vec<char> = word.chars().collect();
        let mut splits = Vec::new();
        if wc.len() > 2 {
            for i in 1..wc.len() {
                let key: String = wc[i..].iter().collect();
                if let Some(sfx) = self.or.suffix.get(&key) {
                    let base: String = wc[..i].iter().collect();
                    let off: Vec<Value> = offered.get(&base).map(|l| l.iter().map(|c| chars(c)).collect()).unwrap_or_default();
                    splits.push(json!({"at": i, "sfx": chars(sfx), "directs": self.directs(&base, user_ac, cache), "offered": off}));
                }
            }
        }
        let emoticon = self.or.emoticons.get(typed).map(|e| e.to_string()).unwrap_or_default();
        let names: Vec<Value> = self.or.emoji_names.get(word.as_str()).map(|l| l.iter().map(|e| chars(e)).collect()).unwrap_or_default();
        let cands: Vec<Value> = o.cands.iter().enumerate().map(|(i, c)| {
            let pre = o.pre.get(i).cloned().flatten();
            json!({"t": chars(c), "emoji": self.or.has_table_emoji(c),
                   "pre_eq": pre.as_deref() == Some(c.as_str()),
                   "pre_bijoy": pre.is_some() && pre == bijoy(c),
                   "pre_bn": pre.as_deref().map(has_bengali).unwrap_or(true),
                   "readable": pre.is_some()})
        }).collect();
        json!({"ev": "plist", "typed": chars(typed), "english": cfg.english && !cfg.ansi, "ansi": cfg.ansi, "smart": cfg.smart,
               "kind": o.kind, "sel": o.sel, "cands": cands, "tlp": tlp, "tls": tls,
               "w0": a, "w1": b, "tlw": chars(&self.or.translit(&word)), "directs": directs, "splits": splits,
               "emoticon": chars(&emoticon), "names": names})
    }

    /// texts: exhaustive short strings, auto-correct keys, dictionary-guided spellings + suffix keys,
    /// emoticons, emoji names, random longer words; typed in one long-lived context per configuration.
    pub fn driver_cands(&mut self, texts: &[String], shard: usize, shards: usize) {
        let cfgs = [
            Cfg { layout: "phonetic".into(), psug: true, english: true, smart: true, db: true, ..Default::default() },
            Cfg { layout: "phonetic".into(), psug: true, english: false, smart: false, db: true, ..Default::default() },
            Cfg { layout: "phonetic".into(), psug: true, english: true, ansi: true, smart: true, db: true, ..Default::default() },
            Cfg { layout: "phonetic".into(), psug: true, english: false, ansi: true, smart: false, db: true, ..Default::default() },
        ];
        clean_home(&self.home);
        let user_ac: std::collections::HashMap<String, String> = std::collections::HashMap::new();
        let mut cache = std::collections::HashMap::new();
        let mut ctxs: Vec<Ctx> = cfgs.iter().map(|c| Ctx::new(c, &self.home).unwrap()).collect();
        self.emit(json!({"ev": "reset"}));
        for (n, t) in texts.iter().enumerate() {
            if n % shards != shard {
                continue;
            }
            // two of the four configurations per text (rotating), all four for emoticons / names
            let special = self.or.emoticons.contains_key(t.as_str());
            for (ci, cfg) in cfgs.iter().enumerate() {
                if !special && (n / shards + ci) % 2 == 1 {
                    continue;
                }
                // the lists offered for the bases alone, in the same context (a user typing the word passes them too)
                let mut offered: std::collections::HashMap<String, Vec<String>> = std::collections::HashMap::new();
                for base in self.bases_of(t) {
                    let ob = self.type_text(&mut ctxs[ci], &base);
                    if ob.kind == "full" {
                        offered.insert(base.clone(), ob.cands.clone());
                    }
                    if ob.kind != "panic" {
                        ctxs[ci].finish();
                    }
                }
                // (ANSI configurations, every other text: the highlight was moved - another valid selection byte is passed)
                self.alt_sel = cfg.ansi && (n / shards) % 2 == 0;
                let o = self.type_text(&mut ctxs[ci], t);
                self.alt_sel = false;
                if o.kind == "panic" {
                    self.emit(json!({"ev": "panic", "typed": chars(t), "what": o.panic.clone().unwrap_or_default()}));
                    ctxs[ci] = Ctx::new(cfg, &self.home).unwrap();
                    continue;
                }
                let e = self.plist_event(t, cfg, &o, &user_ac, &mut cache, &offered);
                self.emit(e);
                ctxs[ci].finish();
                // the long-lived context keeps composing other, never-seen words between the texts of the corpus
                let len = 3 + self.rng.below(6);
                let w: String = (0..len).map(|_| (b'a' + self.rng.below(26) as u8) as char).collect();
                let on = self.type_text(&mut ctxs[ci], &w);
                if on.kind == "panic" {
                    self.emit(json!({"ev": "panic", "typed": chars(&w), "what": on.panic.clone().unwrap_or_default()}));
                    ctxs[ci] = Ctx::new(cfg, &self.home).unwrap();
                } else {
                    self.emit(json!({"ev": "noise", "typed": chars(&w)}));
                    ctxs[ci].finish();
                }
            }
        }
    }
}

impl Recorder {
    /// C07 "the auto-correct entry for the typed word (USER entry before bundled entry) is first": contexts over a user
    /// auto-correct file with (a) entries for keys the bundled list has too and (b) pairs base / base + suffix where the base has
    /// many dictionary hits and the suffixed word few of its own - the list of the suffixed word then starts with its own entry,
    /// followed by few own hits and MANY suffix-built words, the first of which is built from the base's entry (equal rank: only
    /// the order of assembly decides).  Emitted as plist events of the candidate trace.
    pub fn driver_cands_userac(&mut self, shard: usize, shards: usize) {
        let bases = ["kor", "bol", "por", "mon", "din", "tar", "jon", "kotha", "sesh", "bangla", "sor", "kal"];
        let sfxs = ["ta", "e", "er", "gulo", "o", "i", "te", "ke", "ra", "der", "tai", "mala"];
        let vals = ["amra", "tumi", "kkhoma", "bondhu", "prithibi", "shanti"];
        let mut user_ac: std::collections::HashMap<String, String> = std::collections::HashMap::new();
        let mut texts: Vec<String> = Vec::new();
        for (i, b) in bases.iter().enumerate() {
            user_ac.insert(b.to_string(), vals[i % vals.len()].to_string());
            texts.push(b.to_string());
            for (j, sx) in sfxs.iter().enumerate() {
                if !self.or.suffix.contains_key(*sx) {
                    continue;
                }
                let w = format!("{}{}", b, sx);
                if (i + j) % 2 == 0 {
                    user_ac.insert(w.clone(), vals[(i + j + 1) % vals.len()].to_string());
                }
                texts.push(w);
            }
        }
        // keys the bundled list has too: the user's entry wins
        let mut sys: Vec<&String> = self.or.autocorrect.keys().filter(|k| k.chars().all(|c| c.is_ascii_lowercase()) && k.len() >= 2).collect();
        sys.sort();
        for k in sys.iter().step_by(97).take(12) {
            user_ac.insert((*k).clone(), "shobuj".to_string());
            texts.push((*k).clone());
        }
        clean_home(&self.home);
        let acp = self.home.join("openbangla-keyboard/autocorrect.json");
        std::fs::write(&acp, serde_json::to_vec(&user_ac).unwrap()).unwrap();
        let cfgs = vec![
            Cfg { layout: "phonetic".into(), psug: true, english: true, smart: false, db: true, ..Default::default() },
            Cfg { layout: "phonetic".into(), psug: true, english: false, smart: true, db: true, ..Default::default() },
        ];
        let mut cache = std::collections::HashMap::new();
        self.emit(json!({"ev": "reset"}));
        for (n, t) in texts.iter().enumerate() {
            if n % shards.max(1) != shard % shards.max(1) {
                continue;
            }
            let cfg = &cfgs[(n / shards.max(1)) % 2];
            // a context of its own per text: the bases are typed first (key by key, as a user reaches the word), then the text
            let mut ctx = match Ctx::new(cfg, &self.home) { Ok(c) => c, Err(_) => continue };
            let mut offered: std::collections::HashMap<String, Vec<String>> = std::collections::HashMap::new();
            for base in self.bases_of(t) {
                let ob = self.type_text(&mut ctx, &base);
                if ob.kind == "full" {
                    offered.insert(base.clone(), ob.cands.clone());
                }
                if ob.kind != "panic" {
                    ctx.finish();
                }
            }
            let o = self.type_text(&mut ctx, t);
            if o.kind == "panic" {
                self.emit(json!({"ev": "panic", "typed": chars(t), "what": o.panic.clone().unwrap_or_default()}));
                continue;
            }
            let e = self.plist_event(t, cfg, &o, &user_ac, &mut cache, &offered);
            self.emit(e);
        }
        let _ = std::fs::remove_file(&acp);
    }
}

/// A plain inverse of the Avro table (one spelling per word; None when the word holds a character the table lacks).  The
/// result is only ever used after the okkhor pattern of the spelling was checked against the word.
pub fn romanise(word: &str) -> Option<String> {
    romanise_mask(word, u64::MAX).map(|(s, _)| s)
}
/// ... every spelling that differs in where the inherent vowel is written (at most 64), for words whose plain spelling the
/// pattern does not match.
pub fn romanise_variants(word: &str) -> Vec<String> {
    let n = match romanise_mask(word, u64::MAX) { Some((_, n)) => n.min(6), None => return Vec::new() };
    (0..(1u64 << n)).rev().filter_map(|m| romanise_mask(word, m).map(|(s, _)| s)).collect()
}
/// `mask` bit k set = the k-th inherent vowel inside the word is written; returns the spelling and the number of such places.
fn romanise_mask(word: &str, mask: u64) -> Option<(String, u32)> {
    let cons = |c: char| -> Option<&'static str> {
        Some(match c {
            'ক' => "k", 'খ' => "kh", 'গ' => "g", 'ঘ' => "gh", 'ঙ' => "Ng", 'চ' => "c", 'ছ' => "ch", 'জ' => "j", 'ঝ' => "jh", 'ঞ' => "NG",
            'ট' => "T", 'ঠ' => "Th", 'ড' => "D", 'ঢ' => "Dh", 'ণ' => "N", 'ত' => "t", 'থ' => "th", 'দ' => "d", 'ধ' => "dh", 'ন' => "n",
            'প' => "p", 'ফ' => "f", 'ব' => "b", 'ভ' => "bh", 'ম' => "m", 'য' => "z", 'র' => "r", 'ল' => "l", 'শ' => "sh", 'ষ' => "Sh",
            'স' => "s", 'হ' => "h", '\u{09DC}' => "R", '\u{09DD}' => "Rh", '\u{09DF}' => "y", _ => return None,
        })
    };
    let other = |c: char| -> Option<&'static str> {
        Some(match c {
            'অ' => "o", 'আ' => "a", 'ই' => "i", 'ঈ' => "I", 'উ' => "u", 'ঊ' => "U", 'ঋ' => "rri", 'এ' => "e", 'ঐ' => "OI", 'ও' => "O", 'ঔ' => "OU",
            'া' => "a", 'ি' => "i", 'ী' => "I", 'ু' => "u", 'ূ' => "U", 'ৃ' => "rri", 'ে' => "e", 'ৈ' => "OI", 'ো' => "O", 'ৌ' => "OU",
            'ং' => "ng", 'ঃ' => ":", 'ঁ' => "^", 'ৎ' => "t``", _ => return None,
        })
    };
    let cs: Vec<char> = word.chars().collect();
    let mut out = String::new();
    let mut i = 0;
    let mut places = 0u32;
    while i < cs.len() {
        let c = cs[i];
        if let Some(r) = cons(c) {
            // the two conjuncts with a spelling of their own
            if c == 'ক' && cs.get(i + 1) == Some(&'\u{09CD}') && cs.get(i + 2) == Some(&'ষ') {
                out.push_str("kkh");
                i += 3;
            } else {
                out.push_str(r);
                i += 1;
            }
            match cs.get(i) {
                Some('\u{09CD}') => { i += 1; }                          // hasanta: the next consonant joins
                Some(n) if cons(*n).is_some() => {                        // inherent vowel inside the word
                    if places >= 63 || mask & (1 << places) != 0 { out.push('o'); }
                    places += 1;
                }
                _ => {}
            }
        } else if let Some(r) = other(c) {
            out.push_str(r);
            i += 1;
        } else {
            return None;
        }
    }
    if out.is_empty() { None } else { Some((out, places)) }
}

/// The text corpus of the candidate driver.
pub fn cands_corpus(or: &Oracles, tier_quick: bool, seed: u64) -> Vec<String> {
    let mut rng = Rng(seed | 1);
    let typeable: Vec<char> = (33u8..127).map(|b| b as char).collect();
    let mut out: Vec<String> = Vec::new();
    for a in &typeable {
        out.push(a.to_string());
    }
    // length 2: exhaustive (thorough) / every 5th (quick)
    let mut k = 0;
    for a in &typeable {
        for b in &typeable {
            k += 1;
            if !tier_quick || k % 6 == (seed % 6) as usize {
                out.push(format!("{}{}", a, b));
            }
        }
    }
    let mut ac: Vec<&String> = or.autocorrect.keys().collect();
    ac.sort();
    for (i, k) in ac.iter().enumerate() {
        if k.chars().all(|c| (33..127).contains(&(c as u32))) && (!tier_quick || i % 8 == (seed % 8) as usize) {
            out.push((*k).clone());
        }
    }
    let mut sk: Vec<&String> = or.suffix.keys().collect();
    sk.sort();
    let n_sfx = if tier_quick { 40 } else { sk.len() };
    for b in BASE_WORDS {
        out.push(b.to_string());
        for j in 0..n_sfx {
            let s = if tier_quick { sk[rng.below(sk.len())] } else { sk[j] };

            out.push(format!("{}{}", b, s));
        }
        out.push(format!("({})", b));
        out.push(format!("\"{}\"", b));
    }
    // bases stratified by the joining rules: auto-correct keys whose Bengali form ends in khanda-ta, anusvara, a vowel or a
    // vowel sign (they are first-ranked direct candidates), a few known dictionary spellings, x suffix keys whose Bengali form
    // starts with a vowel sign / does not
    let ends = |k: &String, pred: &dyn Fn(char) -> bool| -> bool {
        or.autocorrect.get(k).map(|v| v.is_ascii() && or.translit(v).chars().last().map(pred).unwrap_or(false)).unwrap_or(false)
    };
    let kars = "\u{09BE}\u{09BF}\u{09C0}\u{09C1}\u{09C2}\u{09C3}\u{09C7}\u{09C8}\u{09CB}\u{09CC}";
    let vowels = "\u{0985}\u{0986}\u{0987}\u{0988}\u{0989}\u{098A}\u{098B}\u{098F}\u{0990}\u{0993}\u{0994}";
    let lower_keys: Vec<&String> = ac.iter().copied().filter(|k| k.len() > 1 && k.chars().all(|c| c.is_ascii_lowercase())).collect();
    let mut strat: Vec<String> = Vec::new();
    for pred in [&(|c: char| c == '\u{09CE}') as &dyn Fn(char) -> bool, &|c: char| c == '\u{0982}', &|c: char| kars.contains(c), &|c: char| vowels.contains(c)] {
        let mut n = 0;
        for k in &lower_keys {
            if ends(k, pred) {
                strat.push((*k).clone());
                n += 1;
                if n >= (if tier_quick { 4 } else { 40 }) {
                    break;
                }
            }
        }
    }
    for w in ["sot", "mohot", "brrihot", "bidyut", "biddut", "vobisshot", "hothat", "ebong", "rong", "bong", "i", "e", "ki", "ke", "boi", "nei"] {
        strat.push(w.to_string());
    }
    let kar_sfx: Vec<&String> = sk.iter().copied().filter(|k| or.suffix[*k].chars().next().map(|c| kars.contains(c)).unwrap_or(false)).collect();
    let non_kar_sfx: Vec<&String> = sk.iter().copied().filter(|k| !or.suffix[*k].chars().next().map(|c| kars.contains(c)).unwrap_or(false)).collect();
    for b in &strat {
        for j in 0..(if tier_quick { 2 } else { 8 }) {
            out.push(format!("{}{}", b, kar_sfx[(rng.below(kar_sfx.len()) + j) % kar_sfx.len()]));
            out.push(format!("{}{}", b, non_kar_sfx[(rng.below(non_kar_sfx.len()) + j) % non_kar_sfx.len()]));
        }
    }
    let mut emo: Vec<&&str> = or.emoticons.keys().collect();
    emo.sort();
    for e in emo {
        out.push(e.to_string());
    }
    let mut names: Vec<&&str> = or.emoji_names.keys().collect();
    names.sort();
    for (i, n) in names.iter().enumerate() {
        if n.chars().all(|c| (33..127).contains(&(c as u32))) && (!tier_quick || i % 4 == (seed % 4) as usize) {
            out.push(n.to_string());
            // wrapped on both sides / on one side only (rotating)
            match i % 6 {
                0 => out.push(format!("({}!", n)),
                1 => out.push(format!("{}!", n)),
                2 => out.push(format!("({}", n)),
                3 => out.push(format!("\"{}", n)),
                4 => out.push(format!("{}.", n)),
                _ => out.push(format!("[{}]?", n)),
            }
        }
    }
    // dictionary-guided spellings: words of dictionary.json written back in Latin letters by a plain inverse table and kept when
    // the Avro pattern of the spelling really matches the word (okkhor regex oracle) - typed texts whose lists hold several
    // dictionary hits at several distances.  Always included: every word a dictionary table lists MORE THAN ONCE (the inputs
    // on which duplicate suppression has to work on the dictionary hits themselves).
    {
        let mut tables: Vec<&String> = or.dict.keys().collect();
        tables.sort();
        let mut dups: Vec<String> = Vec::new();
        for t in &tables {
            let mut count: std::collections::HashMap<&String, usize> = std::collections::HashMap::new();
            for w in &or.dict[*t] {
                *count.entry(w).or_insert(0) += 1;
            }
            dups.extend(count.into_iter().filter(|(_, n)| *n > 1).map(|(w, _)| w.clone()));
        }
        dups.sort();
        for w in &dups {
            if let Some(r) = romanise_variants(w).into_iter().find(|r| or.is_dict_match(r, w)) {
                out.push(r.clone());
                out.push(format!("({})", r));
            }
        }
        let mut words: Vec<&String> = or.dict_words.iter().filter(|w| { let n = w.chars().count(); (2..=9).contains(&n) }).collect();
        words.sort();
        let step = if tier_quick { 997 } else { 41 };
        for w in words.iter().skip((seed % step as u64) as usize).step_by(step) {
            if let Some(r) = romanise(w).filter(|r| or.is_dict_match(r, w)) {
                out.push(r);
            }
        }
    }
    // the joining rules look at the LAST character of the base candidate and the FIRST of the suffix: for every character a
    // dictionary word ends in, a few words ending in it (spelt back and checked as above; a final chandrabindu / visarga /
    // hasanta may stay unwritten) x suffix keys whose Bengali form starts with each vowel sign / with a consonant
    {
        let mut by_last: std::collections::BTreeMap<char, Vec<&String>> = std::collections::BTreeMap::new();
        let mut words: Vec<&String> = or.dict_words.iter().filter(|w| { let n = w.chars().count(); (2..=6).contains(&n) }).collect();
        words.sort();
        for w in words {
            by_last.entry(w.chars().last().unwrap()).or_default().push(w);
        }
        let mut first_kar: std::collections::BTreeMap<char, &String> = std::collections::BTreeMap::new();
        for k in &kar_sfx {
            first_kar.entry(or.suffix[*k].chars().next().unwrap()).or_insert(*k);
        }
        let per_class = if tier_quick { 2 } else { 12 };
        // ("a FINAL ৎ / ং": words that hold the same letter earlier too come first in their class)
        for (last, ws) in by_last.iter_mut() {
            if *last == '\u{09CE}' || *last == '\u{0982}' {
                let l = *last;
                ws.sort_by_key(|w| if w.chars().filter(|c| *c == l).count() >= 2 { 0 } else { 1 });
            }
        }
        for (_, ws) in by_last {
            let mut got = 0;
            for w in ws.iter().skip((seed % 7) as usize) {
                let mut spellings = romanise_variants(w);
                // the final sign may stay unwritten ("ga" matches গাঁ)
                let trimmed: Vec<String> = spellings.iter().filter_map(|r| r.strip_suffix('^').or(r.strip_suffix(':')).map(|x| x.to_string())).collect();
                spellings.extend(trimmed);
                if let Some(r) = spellings.into_iter().rev().find(|r| r.len() >= 2 && r.chars().all(|c| c.is_ascii_alphabetic()) && or.is_dict_match(r, w)) {
                    out.push(r.clone());
                    for k in first_kar.values() {
                        out.push(format!("{}{}", r, k));
                    }
                    out.push(format!("{}{}", r, non_kar_sfx[rng.below(non_kar_sfx.len())]));
                    got += 1;
                    if got >= per_class {
                        break;
                    }
                }
            }
        }
    }
    // random longer lowercase words
    for _ in 0..(if tier_quick { 150 } else { 3000 }) {
        let len = 3 + rng.below(8);
        out.push((0..len).map(|_| (b'a' + rng.below(26) as u8) as char).collect());
    }
    out
}

// ------------------------------------------------------------------------------------------------
// Fixed-layout candidate driver (C15, C16 / C18 fixed part)

const CLEAN: &str = "|()[]{}^$*+?.~!@#%&-_='\";<>/\\,:`\u{0964}\u{200C}";
pub fn clean(s: &str) -> String {
    s.chars().filter(|c| !CLEAN.contains(*c)).collect()
}

impl Recorder {
    pub fn flist_event(&self, keys_typed: &str, cfg: &Cfg, o: &Obs, used_bs: bool) -> Value {
        let comp = o.aux.clone();
        // proposed word: composed text without leading/trailing META characters and colons
        let cs: Vec<char> = comp.chars().collect();
        let meta: Vec<char> = crate::script::META.chars().chain([':', '\u{0964}']).collect();
        let mut a = 0;
        while a < cs.len() && meta.contains(&cs[a]) {
            a += 1;
        }
        let mut b = cs.len();
        while b > a && meta.contains(&cs[b - 1]) {
            b -= 1;
        }
        let word: String = cs[a..b].iter().collect();
        let lead: String = cs[..a].iter().collect();
        let trail: String = cs[b..].iter().collect();
        let cw = clean(&word);
        let cands: Vec<Value> = o.cands.iter().enumerate().map(|(i, c)| {
            let pre = o.pre.get(i).cloned().flatten();
            let cc = clean(&uncurl(c));
            // inner text of the candidate: without the wrapping of the composed text (curled or not)
            let mut inner: &str = c.as_str();
            for l in [lead.clone(), lead.chars().map(|x| match x { '\'' => '\u{2018}', '"' => '\u{201C}', o => o }).collect::<String>()] {
                if !l.is_empty() && inner.starts_with(l.as_str()) {
                    inner = &inner[l.len()..];
                    break;
                }
            }
            for t in [trail.clone(), trail.chars().map(|x| match x { '\'' => '\u{2019}', '"' => '\u{201D}', o => o }).collect::<String>()] {
                if !t.is_empty() && inner.ends_with(t.as_str()) {
                    inner = &inner[..inner.len() - t.len()];
                    break;
                }
            }
            json!({"t": chars(c), "emoji": self.or.has_table_emoji(c),
                   "dictword": self.or.dict_words.contains(&cc),
                   "prefix": !cw.is_empty() && cc.starts_with(&cw), "ascii": c.is_ascii(),
                   "dist": levenshtein(&word, inner) * 10,
                   "pre_eq": pre.as_deref() == Some(c.as_str()),
                   "pre_bijoy": pre.is_some() && pre == bijoy(c),
                   "pre_bn": pre.as_deref().map(has_bengali).unwrap_or(true),
                   "readable": pre.is_some()})
        }).collect();
        // (after a correction the raw key buffer of the engine is not determined by the statements: no emoticon is demanded)
        let emoticon = if used_bs { String::new() } else { self.or.emoticons.get(keys_typed).map(|e| e.to_string()).unwrap_or_default() };
        let names: Vec<Value> = self.or.bn_emoji_names.get(word.as_str()).map(|l| l.iter().map(|e| chars(e)).collect()).unwrap_or_default();
        json!({"ev": "flist", "keys": chars(keys_typed), "comp": chars(&comp), "english": cfg.english && !cfg.ansi, "ansi": cfg.ansi,
               "smart": cfg.smart, "kar": cfg.kar, "bs": used_bs, "kind": o.kind, "sel": o.sel, "cands": cands,
               "w0": a, "w1": b, "emoticon": chars(&emoticon), "names": names})
    }

    /// Type `values` (layout values) through the inverse of the bundled layout; returns the last observation and raw key text.
    fn type_values(&self, c: &mut Ctx, inv: &LayoutInv, values: &[String]) -> Option<(Obs, String)> {
        let mut last = Obs::default();
        let mut raw = String::new();
        for v in values {
            let (code, m) = inv.key_for_value(v)?;
            last = c.key(code, m, 0);
            if let Some(ch) = self.keys.char_for_code(code) {
                raw.push(ch);
            }
            if last.kind == "panic" {
                break;
            }
        }
        Some((last, raw))
    }

    /// The text `seq` has just been typed into `c`; apply one of three corrections and return the lists shown on the way
    /// (with the raw key characters that survive - informative only, the raw-key clause is waived after a backspace).
    fn edited_lists(&self, c: &mut Ctx, inv: &LayoutInv, seq: &[String], how: usize) -> Vec<(Obs, String)> {
        let mut out = Vec::new();
        let raw_of = |vals: &[String]| -> String {
            vals.iter().filter_map(|v| inv.key_for_value(v).and_then(|(code, _)| self.keys.char_for_code(code))).collect()
        };
        match how {
            0 => {
                // another key (a consonant the word does not end in), then a backspace
                let extra = if seq.last().map(|s| s.as_str()) == Some("\u{0995}") { "\u{09A8}" } else { "\u{0995}" };
                if let Some((code, m)) = inv.key_for_value(extra) {
                    let o = c.key(code, m, 0);
                    if o.kind == "panic" { out.push((o, String::new())); return out; }
                    let o = c.backspace(false);
                    out.push((o, raw_of(seq)));
                }
            }
            1 => {
                // a backspace, then the last value again (values of one code point only)
                if let Some(last) = seq.last() {
                    if last.chars().count() == 1 && seq.len() >= 2 {
                        let o = c.backspace(false);
                        let stop = o.kind == "panic";
                        out.push((o, raw_of(&seq[..seq.len() - 1])));
                        if stop { return out; }
                        if let Some((code, m)) = inv.key_for_value(last) {
                            let o = c.key(code, m, 0);
                            out.push((o, raw_of(seq)));
                        }
                    }
                }
            }
            _ => {
                // backspaces down to the first code point (values of one code point only), then the rest again
                if seq.len() >= 3 && seq.iter().all(|v| v.chars().count() == 1) {
                    for k in (1..seq.len()).rev() {
                        let o = c.backspace(false);
                        let stop = o.kind == "panic";
                        out.push((o, raw_of(&seq[..k])));
                        if stop { return out; }
                    }
                    for k in 1..seq.len() {
                        if let Some((code, m)) = inv.key_for_value(&seq[k]) {
                            let o = c.key(code, m, 0);
                            let stop = o.kind == "panic";
                            out.push((o, raw_of(&seq[..=k])));
                            if stop { return out; }
                        }
                    }
                }
            }
        }
        out
    }

    /// (number of (typed word, hit) pairs where a longer hit precedes the typed word's own entry in its table,
    ///  number of (typed prefix, duplicated word) pairs whose two entries are separated by another hit)
    /// - with the search pattern of the statement: the typed word followed by 0 / 1 / 5 more letters for 1 / 2-3 / 4+ letters.
    fn dict_order_facts(&self) -> (u64, u64) {
        let letter = |c: char| ('\u{0981}'..='\u{09E1}').contains(&c) && !('\u{09E6}'..='\u{09EF}').contains(&c);
        let upto = |n: usize| if n <= 1 { 0 } else if n <= 3 { 1 } else { 5 };
        let matches = |p: &[char], w: &[char]| w.len() >= p.len() && w[..p.len()] == *p && w.len() - p.len() <= upto(p.len()) && w[p.len()..].iter().all(|c| letter(*c));
        let (mut exact_first, mut split_dups) = (0u64, 0u64);
        for ws in self.or.dict.values() {
            let cs: Vec<Vec<char>> = ws.iter().map(|w| w.chars().collect()).collect();
            let mut pos: std::collections::HashMap<&[char], Vec<usize>> = std::collections::HashMap::new();
            for (i, w) in cs.iter().enumerate() {
                pos.entry(w.as_slice()).or_default().push(i);
            }
            for (i, w) in cs.iter().enumerate() {
                for k in 1..w.len() {
                    if let Some(ps) = pos.get(&w[..k]) {
                        if matches(&w[..k], w) && ps.iter().any(|j| *j > i) {
                            exact_first += 1;
                        }
                    }
                }
            }
            for (w, ps) in &pos {
                for pair in ps.windows(2) {
                    for k in 1..=w.len() {
                        if matches(&w[..k], w) && cs[pair[0] + 1..pair[1]].iter().any(|x| x.as_slice() != *w && matches(&w[..k], x)) {
                            split_dups += 1;
                        }
                    }
                }
            }
        }
        (exact_first, split_dups)
    }

    pub fn driver_fcands(&mut self, shard: usize, shards: usize, quick: bool) {
        let mk = |kar: bool, smart: bool, english: bool, ansi: bool| Cfg {
            layout: "probhat".into(), fsug: true, english, ansi, smart, vowel: true, chandra: true, kar, reph: true, db: true, ..Default::default()
        };
        let cfgs = [mk(true, true, true, false), mk(false, false, false, false), mk(true, false, true, true), mk(false, true, false, true),
                    mk(false, true, true, false), mk(true, false, false, false)];
        let inv = LayoutInv::load(&cfgs[0], &self.keys);
        let mut ctxs: Vec<Ctx> = cfgs.iter().map(|c| Ctx::new(c, &self.home).unwrap()).collect();
        self.emit(json!({"ev": "reset"}));
        // corpus: prefixes of dictionary words (sampled / all), Bengali emoji names, emoticons by their key characters
        let mut words: Vec<String> = self.or.dict_words.iter().cloned().collect();
        words.sort();
        let mut items: Vec<(Vec<String>, String)> = Vec::new(); // (values, wrap kind)
        let step = if quick { 97 } else { 1 };
        let mut seen = std::collections::HashSet::new();
        for (i, w) in words.iter().enumerate() {
            if i % step != (self.rng.0 % step as u64) as usize % step {
                continue;
            }
            let cs: Vec<char> = w.chars().collect();
            for k in 1..=cs.len().min(if quick { 6 } else { 12 }) {
                let p: String = cs[..k].iter().collect();
                if seen.insert(p.clone()) {
                    items.push((cs[..k].iter().map(|c| c.to_string()).collect(), String::new()));
                }
            }
        }
        // data-derived stratum (both tiers): every prefix of the words a dictionary table lists MORE THAN ONCE - the only
        // inputs on which the de-duplication of the list has something to do beyond the typed word itself
        let mut tables: Vec<&String> = self.or.dict.keys().collect();
        tables.sort();
        for t in tables {
            let mut count: std::collections::HashMap<&String, usize> = std::collections::HashMap::new();
            for w in &self.or.dict[t] {
                *count.entry(w).or_insert(0) += 1;
            }
            let mut dups: Vec<&String> = count.into_iter().filter(|(_, n)| *n > 1).map(|(w, _)| w).collect();
            dups.sort();
            for w in dups {
                let cs: Vec<char> = w.chars().collect();
                for k in 1..=cs.len() {
                    let p: String = cs[..k].iter().collect();
                    if seen.insert(p) {
                        items.push((cs[..k].iter().map(|c| c.to_string()).collect(), String::new()));
                    }
                }
            }
        }
        // data-derived stratum (both tiers): every prefix of the dictionary words that contain a character outside the Bengali
        // block (abbreviations with an ASCII full stop, words with a non-joiner) - the words on which "ignoring punctuation and
        // non-joiners" has something to ignore INSIDE the word
        let mut odd: Vec<&String> = words.iter().filter(|w| w.chars().any(|c| !('\u{0980}'..='\u{09FF}').contains(&c))).collect();
        odd.sort();
        for w in odd {
            let cs: Vec<char> = w.chars().collect();
            for k in 1..=cs.len() {
                let p: String = cs[..k].iter().collect();
                if seen.insert(p) {
                    items.push((cs[..k].iter().map(|c| c.to_string()).collect(), String::new()));
                }
            }
        }
        // ... and every ASCII punctuation / symbol character the layout can emit, typed INSIDE a few dictionary prefixes
        let mut inner: Vec<String> = inv.inv.keys().filter(|v| v.chars().count() == 1 && v.chars().all(|c| c.is_ascii() && !c.is_ascii_alphanumeric())).cloned().collect();
        inner.sort();
        let hosts: Vec<Vec<char>> = words.iter().filter(|w| w.chars().count() == 4 && w.chars().all(|c| ('\u{0995}'..='\u{09B9}').contains(&c) || c == '\u{09BE}'))
            .step_by(2011).take(4).map(|w| w.chars().collect()).collect();
        for c in &inner {
            for h in &hosts {
                let mut v: Vec<String> = vec![h[0].to_string(), c.clone()];
                v.extend(h[1..3].iter().map(|x| x.to_string()));
                if seen.insert(v.concat()) {
                    items.push((v, String::new()));
                }
            }
        }
        // the two facts about the DATA that MC_FixedList!DataOK assumes (the list's de-duplication is consecutive-only):
        // checked on the dictionary as read here, validated by Trace_Cands!DictFacts
        if shard == 0 {
            let (exact_first, split_dups) = self.dict_order_facts();
            self.emit(json!({"ev": "dictfacts", "exact_first": exact_first, "split_dups": split_dups}));
        }
        let mut names: Vec<String> = self.or.bn_emoji_names.keys().map(|s| s.to_string()).collect();
        names.sort();
        for n in names {
            items.push((n.chars().map(|c| c.to_string()).collect(), "name".into()));
        }
        let wraps: [(&str, &str); 6] = [("", ""), ("(", ")"), ("\"", "\""), ("'", "?"), ("", ":"), ("\"", "")];
        let mut n = 0usize;
        for (vals, kind) in items {
            n += 1;
            if n % shards != shard {
                continue;
            }
            let ci = (n / shards) % cfgs.len();
            let (l, t) = if kind == "name" { wraps[(n / shards) % 3] } else { wraps[(n / shards / 7) % wraps.len()] };
            let mut seq: Vec<String> = l.chars().map(|c| c.to_string()).collect();
            seq.extend(vals.iter().cloned());
            seq.extend(t.chars().map(|c| c.to_string()));
            match self.type_values(&mut ctxs[ci], &inv, &seq) {
                Some((o, raw)) => {
                    if o.kind == "panic" {
                        self.emit(json!({"ev": "panic", "typed": chars(&seq.concat()), "what": o.panic.clone().unwrap_or_default()}));
                        ctxs[ci] = Ctx::new(&cfgs[ci], &self.home).unwrap();
                        continue;
                    }
                    let e = self.flist_event(&raw, &cfgs[ci], &o, false);
                    self.emit(e);
                    // edited histories (every 3rd item): the list shown after a correction is still a list of C15 - the first
                    // candidate is the composed text, the others complete it - only the raw-key-text clause is waived once a
                    // backspace was used.  (a) another key and a backspace; (b) a backspace and the last value again;
                    // (c) backspaces down to the first code point, then the rest of the text again.
                    if n % 3 == 0 {
                        let edits = self.edited_lists(&mut ctxs[ci], &inv, &seq, (n / 3) % 3);
                        for (o2, raw2) in edits {
                            if o2.kind == "panic" {
                                self.emit(json!({"ev": "panic", "typed": chars(&seq.concat()), "what": o2.panic.clone().unwrap_or_default()}));
                                ctxs[ci] = Ctx::new(&cfgs[ci], &self.home).unwrap();
                                break;
                            }
                            if o2.kind == "full" {
                                let e2 = self.flist_event(&raw2, &cfgs[ci], &o2, true);
                                self.emit(e2);
                            }
                        }
                    }
                    ctxs[ci].finish();
                }
                None => {
                    ctxs[ci].finish();
                }
            }
        }
        // data-derived (both tiers, shard 0): every name with MORE THAN EIGHT emoji under every configuration without ANSI output -
        // the inputs of known finding F16 (the nine-candidate cut of C15 cannot show them all) are exercised in every run
        if shard == 0 {
            let mut big: Vec<String> = self.or.bn_emoji_names.iter().filter(|(_, l)| l.len() > 8).map(|(n, _)| n.to_string()).collect();
            big.sort();
            for name in big {
                for ci in 0..cfgs.len() {
                    if cfgs[ci].ansi {
                        continue;
                    }
                    let seq: Vec<String> = name.chars().map(|c| c.to_string()).collect();
                    if let Some((o, raw)) = self.type_values(&mut ctxs[ci], &inv, &seq) {
                        if o.kind == "panic" {
                            self.emit(json!({"ev": "panic", "typed": chars(&name), "what": o.panic.clone().unwrap_or_default()}));
                            ctxs[ci] = Ctx::new(&cfgs[ci], &self.home).unwrap();
                            continue;
                        }
                        let e = self.flist_event(&raw, &cfgs[ci], &o, false);
                        self.emit(e);
                    }
                    ctxs[ci].finish();
                }
            }
        }
        // emoticons: typed by their raw key characters
        let mut emo: Vec<String> = self.or.emoticons.keys().map(|s| s.to_string()).collect();
        emo.sort();
        for (i, e) in emo.iter().enumerate() {
            if i % shards != shard {
                continue;
            }
            for ci in [0usize, 1, 2] {
                let mut last = Obs::default();
                let mut ok = true;
                for ch in e.chars() {
                    match self.keys.code_for_char(ch) {
                        Some(code) => last = ctxs[ci].key(code, 0, 0),
                        None => ok = false,
                    }
                }
                if ok && last.kind == "full" {
                    let ev = self.flist_event(e, &cfgs[ci], &last, false);
                    self.emit(ev);
                } else if last.kind == "panic" {
                    self.emit(json!({"ev": "panic", "typed": chars(e), "what": last.panic.clone().unwrap_or_default()}));
                    ctxs[ci] = Ctx::new(&cfgs[ci], &self.home).unwrap();
                    continue;
                }
                ctxs[ci].finish();
            }
        }
    }
}

// ------------------------------------------------------------------------------------------------
// C16 data-exhaustive pass: every dictionary word, every suffix-joined form reachable from the bundled
// auto-correct keys, and every value (and pair of values) a layout key can emit, through the pre-edit
// accessor of a returned suggestion in ANSI mode.

/// The code points the third-party Bijoy encoder is known to panic on (known finding F18): U+09C4..U+09C6, U+09C9, U+09CA.
pub fn known_unencodable(s: &str) -> bool {
    s.chars().any(|c| matches!(c as u32, 0x09C4..=0x09C6 | 0x09C9 | 0x09CA))
}

impl Recorder {
    fn enc_event(&self, text: &str, how: &str) -> Value {
        let t = text.to_string();
        let sug = riti::suggestion::Suggestion::new_lonely(t.clone(), true);
        let pre = std::panic::catch_unwind(std::panic::AssertUnwindSafe(|| sug.get_pre_edit_text(0))).ok();
        if pre.is_none() {
            let _ = take_panic();
        }
        json!({"ev": "enc", "w": text, "how": how, "readable": pre.is_some(), "known_unencodable": known_unencodable(text),
               "pre_bn": pre.as_deref().map(has_bengali).unwrap_or(true),
               "pre_bijoy": pre.is_some() && pre == bijoy(text)})
    }

    pub fn driver_enc(&mut self, shard: usize, shards: usize, quick: bool) {
        self.emit(json!({"ev": "reset"}));
        let mut words: Vec<String> = self.or.dict_words.iter().cloned().collect();
        words.sort();
        let step = if quick { 4 } else { 1 };
        for (i, w) in words.iter().enumerate() {
            if i % shards == shard && (i / shards) % step == 0 {
                let e = self.enc_event(w, "dictionary word");
                self.emit(e);
            }
        }
        // suffix-joined forms reachable from the bundled auto-correct keys: typed in a real ANSI context
        let cfg = Cfg { layout: "phonetic".into(), psug: true, ansi: true, db: true, ..Default::default() };
        let mut ctx = Ctx::new(&cfg, &self.home).unwrap();
        let mut ac: Vec<String> = self.or.autocorrect.keys().filter(|k| k.chars().all(|c| c.is_ascii_lowercase())).cloned().collect();
        ac.sort();
        let mut sk: Vec<String> = self.or.suffix.keys().cloned().collect();
        sk.sort();
        for (i, k) in ac.iter().enumerate() {
            if i % shards != shard || (quick && (i / shards) % 6 != 0) {
                continue;
            }
            let o0 = self.type_text(&mut ctx, k);
            if o0.kind != "panic" {
                ctx.finish();
            }
            for j in 0..(if quick { 2 } else { 12 }) {
                let s = &sk[(i * 31 + j * 97) % sk.len()];
                let typed = format!("{}{}", k, s);
                let o = self.type_text(&mut ctx, &typed);
                if o.kind == "panic" {
                    self.emit(json!({"ev": "panic", "typed": chars(&typed), "what": o.panic.clone().unwrap_or_default()}));
                    ctx = Ctx::new(&cfg, &self.home).unwrap();
                    continue;
                }
                for (ci, c) in o.cands.iter().enumerate() {
                    let pre = o.pre.get(ci).cloned().flatten();
                    self.emit(json!({"ev": "enc", "w": c, "how": format!("candidate of {:?} (ANSI)", typed), "readable": pre.is_some(), "known_unencodable": known_unencodable(c),
                                     "pre_bn": pre.as_deref().map(has_bengali).unwrap_or(true), "pre_bijoy": pre.is_some() && pre == bijoy(c)}));
                }
                ctx.finish();
            }
        }
        // every value and every pair of values the bundled layout can emit, in a real fixed ANSI context
        if shard == 0 {
            let fcfg = Cfg { layout: "probhat".into(), fsug: false, ansi: true, db: false, ..Default::default() };
            let inv = LayoutInv::load(&fcfg, &self.keys);
            let mut fctx = Ctx::new(&fcfg, &self.home).unwrap();
            let mut vals: Vec<String> = inv.inv.keys().cloned().collect();
            vals.sort();
            let mut seqs: Vec<Vec<String>> = vals.iter().map(|v| vec![v.clone()]).collect();
            if !quick {
                for a in &vals {
                    for b in &vals {
                        seqs.push(vec![a.clone(), b.clone()]);
                    }
                }
            } else {
                for a in &vals {
                    seqs.push(vec!["\u{0995}".to_string(), a.clone()]);
                }
            }
            for s in seqs {
                if let Some((o, _)) = self.type_values(&mut fctx, &inv, &s) {
                    if o.kind == "panic" {
                        self.emit(json!({"ev": "panic", "typed": chars(&s.concat()), "what": o.panic.clone().unwrap_or_default()}));
                        fctx = Ctx::new(&fcfg, &self.home).unwrap();
                        continue;
                    }
                    let pre = o.pre.get(0).cloned().flatten();
                    let text = o.cands.get(0).cloned().unwrap_or_default();
                    let ku = known_unencodable(&text) || s.iter().any(|v| known_unencodable(v));
                    self.emit(json!({"ev": "enc", "w": text, "how": format!("fixed layout keys {:?} (ANSI)", s), "known_unencodable": ku, "readable": pre.is_some() || o.kind == "empty",
                                     "pre_bn": pre.as_deref().map(has_bengali).unwrap_or(o.kind != "empty"), "pre_bijoy": o.kind == "empty" || (pre.is_some() && pre == bijoy(&text))}));
                }
                fctx.finish();
            }
        }
    }
}

// ------------------------------------------------------------------------------------------------
// Random in-contract session driver (C01, C02, C06, C04/C12/C13 on long histories with real data)

impl Recorder {
    fn sess_cfg(&mut self) -> (Cfg, Value) {
        let phon = self.rng.below(2) == 0;
        let b = |r: &mut Rng| r.below(2) == 0;
        let layout = if phon { "phonetic" } else if self.rng.below(2) == 0 { "probhat" } else { "synth" };
        let sug = b(&mut self.rng);
        let cfg = Cfg {
            layout: layout.into(), psug: phon && sug, fsug: !phon && sug, english: b(&mut self.rng), ansi: self.rng.below(5) == 0, smart: b(&mut self.rng),
            vowel: b(&mut self.rng), chandra: b(&mut self.rng), kar: b(&mut self.rng), reph: b(&mut self.rng), numpad: b(&mut self.rng),
            karorder: self.rng.below(3) == 0, db: true, altdb: false,
        };
        let j = json!({"method": if phon { "phonetic" } else { "fixed" }, "layout": layout, "sug": sug, "numpad": cfg.numpad,
                       "o": {"vowel": cfg.vowel, "chandra": cfg.chandra, "kar": cfg.kar, "reph": cfg.reph, "karorder": cfg.karorder}});
        (cfg, j)
    }

    pub(crate) fn ret_fields(o: &Obs) -> Value {
        let shown = match o.kind.as_str() {
            "full" => o.aux.clone(),
            "single" => o.cands.get(0).cloned().unwrap_or_default(),
            _ => String::new(),
        };
        json!({"kind": o.kind, "len": o.cands.len(), "rsel": o.sel, "text": chars(&o.aux), "shown": chars(&shown),
               "c0u": chars(&uncurl(&o.cands.get(0).cloned().unwrap_or_default())),
               "pre0": chars(&o.pre.get(0).cloned().flatten().unwrap_or_default()),
               "readable": o.pre.iter().all(|p| p.is_some()), "ku": o.cands.iter().any(|c| known_unencodable(c)), "ongoing": o.ongoing, "ms": o.us / 1000,
               "panic": o.panic.clone().unwrap_or_default()})
    }

    /// Long compositions, systematically: after a one- or two-letter start every one of the 111 keys is pressed `LONG_RUN`
    /// times in a row, in both methods with suggestions on (counters, distances and patterns leave their usual range).
    /// Emitted as ordinary session events.
    fn long_runs(&mut self, shard: usize, shards: usize) {
        const LONG_RUN: usize = 40;
        let all: Vec<u16> = self.keys.codes.iter().map(|k| k.code).collect();
        let starts = ["k", "am", "r"];
        let mut n = 0usize;
        for phon in [true, false] {
            for (ci, code) in all.iter().enumerate() {
                n += 1;
                if n % shards.max(1) != shard % shards.max(1) {
                    continue;
                }
                let layout = if phon { "phonetic" } else { "probhat" };
                let cfg = Cfg { layout: layout.into(), psug: phon, fsug: !phon, english: ci % 2 == 0, smart: ci % 3 == 0, vowel: true, chandra: true,
                                kar: ci % 2 == 1, reph: true, numpad: true, karorder: false, db: true, ..Default::default() };
                let j = json!({"method": if phon { "phonetic" } else { "fixed" }, "layout": layout, "sug": true, "numpad": true,
                               "o": {"vowel": true, "chandra": true, "kar": cfg.kar, "reph": true, "karorder": false}});
                clean_home(&self.home);
                let mut ctx = match Ctx::new(&cfg, &self.home) {
                    Ok(c) => c,
                    Err(_) => continue,
                };
                self.emit(json!({"ev": "new", "cfg": j}));
                let start = starts[ci % starts.len()];
                let mut seq: Vec<u16> = start.chars().filter_map(|c| self.keys.code_for_char(c)).collect();
                seq.extend(std::iter::repeat(*code).take(LONG_RUN));
                for c in seq {
                    let o = ctx.key(c, 0, 0);
                    let mut e = json!({"ev": "key", "code": c, "mod": 0, "sel": 0});
                    for (k, v) in Self::ret_fields(&o).as_object().unwrap() {
                        e[k] = v.clone();
                    }
                    self.emit(e);
                    if o.kind == "panic" {
                        break;
                    }
                }
            }
        }
    }

    /// Long compositions made of stackable parts: a one-letter start followed by ONE suffix key of suffix.json typed again and
    /// again (45 letters), phonetic method with suggestions on - every proper prefix of such a word is a base with a known
    /// suffix at several split points, so whatever the suffix path does per split point is multiplied.  Emitted as session events.
    fn suffix_stacks(&mut self, shard: usize, shards: usize) {
        let mut sk: Vec<String> = self.or.suffix.keys().filter(|k| k.chars().all(|c| c.is_ascii_lowercase())).cloned().collect();
        sk.sort();
        let mut picks: Vec<String> = ["e", "r", "er", "o", "i", "ta", "te", "ke", "ra", "ei", "der", "gulo"].iter().map(|s| s.to_string()).filter(|k| sk.contains(k)).collect();
        picks.extend(sk.iter().step_by(37).cloned());
        let cfg = Cfg { layout: "phonetic".into(), psug: true, english: true, smart: false, db: true, ..Default::default() };
        let j = json!({"method": "phonetic", "layout": "phonetic", "sug": true, "numpad": true,
                       "o": {"vowel": false, "chandra": false, "kar": false, "reph": false, "karorder": false}});
        for (n, key) in picks.iter().enumerate() {
            if n % shards.max(1) != shard % shards.max(1) {
                continue;
            }
            clean_home(&self.home);
            let mut ctx = match Ctx::new(&cfg, &self.home) {
                Ok(c) => c,
                Err(_) => continue,
            };
            self.emit(json!({"ev": "new", "cfg": j}));
            // (every other word: with a learned choice in the store - the look-up of learned choices walks the suffixes too)
            if n % 2 == 0 {
                let mut last = Obs::default();
                for ch in "amar".chars() {
                    let code = self.keys.code_for_char(ch).unwrap();
                    last = ctx.key(code, 0, 0);
                    let mut e = json!({"ev": "key", "code": code, "mod": 0, "sel": 0});
                    for (k, v) in Self::ret_fields(&last).as_object().unwrap() {
                        e[k] = v.clone();
                    }
                    self.emit(e);
                }
                if last.kind == "full" && last.cands.len() > 1 {
                    let o = ctx.commit(1);
                    self.emit(json!({"ev": "commit", "idx": 1, "ongoing": o.ongoing, "panic": o.panic.clone().unwrap_or_default()}));
                } else {
                    let o = ctx.finish();
                    self.emit(json!({"ev": "finish", "ongoing": o.ongoing, "panic": o.panic.clone().unwrap_or_default()}));
                }
            }
            let mut text = String::from(["a", "k", "sesh"][n % 3]);
            while text.len() < 45 {
                text.push_str(key);
            }
            for ch in text.chars() {
                let code = match self.keys.code_for_char(ch) { Some(c) => c, None => continue };
                let o = ctx.key(code, 0, 0);
                let mut e = json!({"ev": "key", "code": code, "mod": 0, "sel": 0});
                for (k, v) in Self::ret_fields(&o).as_object().unwrap() {
                    e[k] = v.clone();
                }
                self.emit(e);
                // (a call far over the budget: stop this word, the trace is rejected at this event anyway)
                if o.kind == "panic" || o.us > 8_000_000 {
                    break;
                }
            }
        }
    }

    /// C04 beyond single keys: every published key pressed twice in a row inside one word under every pair of modifier
    /// patterns (the plane is chosen per key press, nothing of the previous press may decide it), and after another key;
    /// all composition helpers off, suggestions off and on, both layout files.  Emitted as ordinary session events.
    fn key_pairs(&mut self, shard: usize, shards: usize) {
        let all: Vec<u16> = self.keys.codes.iter().map(|k| k.code).collect();
        let mods: [u8; 5] = [0, 1, 2, 3, 0x82];
        let other = self.keys.code_for_char('t').unwrap_or(all[0]);
        let mut n = 0usize;
        for layout in ["probhat", "synth"] {
            for sug in [false, true] {
                n += 1;
                if n % shards.max(1) != shard % shards.max(1) {
                    continue;
                }
                let cfg = Cfg { layout: layout.into(), fsug: sug, english: sug, smart: false, vowel: false, chandra: false, kar: false, reph: false,
                                numpad: true, karorder: false, db: true, ..Default::default() };
                let j = json!({"method": "fixed", "layout": layout, "sug": sug, "numpad": true,
                               "o": {"vowel": false, "chandra": false, "kar": false, "reph": false, "karorder": false}});
                clean_home(&self.home);
                let mut ctx = match Ctx::new(&cfg, &self.home) {
                    Ok(c) => c,
                    Err(_) => continue,
                };
                self.emit(json!({"ev": "new", "cfg": j}));
                for code in &all {
                    for (i1, m1) in mods.iter().enumerate() {
                        for (i2, m2) in mods.iter().enumerate() {
                            if i1 == i2 && (i1 + *code as usize) % 3 != 0 {
                                continue;
                            }
                            // [other key,] key with m1, key with m2, finish
                            let lead = (i1 + i2) % 2 == 1;
                            let mut seq: Vec<(u16, u8)> = Vec::new();
                            if lead {
                                seq.push((other, 0));
                            }
                            seq.push((*code, *m1));
                            // (a part of the pairs: the first press is taken back before the second - the same key under
                            //  another plane after a correction; u16::MAX stands for the backspace)
                            if (i1 * 5 + i2 + *code as usize) % 4 == 0 {
                                seq.push((u16::MAX, 0));
                            }
                            seq.push((*code, *m2));
                            let mut dead = false;
                            for (c, m) in seq {
                                if c == u16::MAX {
                                    let o = ctx.backspace(false);
                                    let mut e = json!({"ev": "bs", "ctrl": false});
                                    for (k, v) in Self::ret_fields(&o).as_object().unwrap() {
                                        e[k] = v.clone();
                                    }
                                    self.emit(e);
                                    if o.kind == "panic" {
                                        dead = true;
                                        break;
                                    }
                                    continue;
                                }
                                let o = ctx.key(c, m, 0);
                                let mut e = json!({"ev": "key", "code": c, "mod": m, "sel": 0});
                                for (k, v) in Self::ret_fields(&o).as_object().unwrap() {
                                    e[k] = v.clone();
                                }
                                self.emit(e);
                                if o.kind == "panic" {
                                    dead = true;
                                    break;
                                }
                            }
                            if dead {
                                return;
                            }
                            let o = ctx.finish();
                            self.emit(json!({"ev": "finish", "ongoing": o.ongoing, "panic": o.panic.clone().unwrap_or_default()}));
                        }
                    }
                }
            }
        }
    }

    /// C11, directed: every single fixed-method option (and the suggestion switch of both methods) flipped by an update-engine
    /// call on an idle context, in both directions, followed by the key sequence that makes the option visible.  Emitted as
    /// ordinary session events; Trace_Session (Focus C11) holds every later event against the configuration passed to the update.
    fn option_flips(&mut self, shard: usize, shards: usize) {
        if shard % shards.max(1) != 0 {
            return;
        }
        let base = Cfg { layout: "synth".into(), fsug: false, english: false, smart: false, vowel: true, chandra: true, kar: true, reph: true,
                         numpad: true, karorder: false, db: true, ..Default::default() };
        let inv = LayoutInv::load(&base, &self.keys);
        let key = |v: &str| inv.key_for_value(v);
        let ka = key("\u{0995}");
        let kp1 = self.keys.codes.iter().find(|k| k.numpad && k.entry == "Num1").map(|k| (k.code, 0u8));
        // revealing sequences (values -> keys)
        let seqs: Vec<(&str, Vec<Option<(u16, u8)>>)> = vec![
            ("vowel", vec![key("\u{09BE}"), ka, key("\u{09BE}"), key("\u{09C7}")]),
            ("chandra", vec![ka, key("\u{0981}"), key("\u{09BE}")]),
            ("kar", vec![ka, key("\u{09C1}"), ka, key("\u{09C3}")]),
            ("reph", vec![ka, key("\u{09B0}\u{09CD}"), ka, key("\u{09BE}"), key("\u{09B0}\u{09CD}")]),
            ("karorder", vec![key("\u{09BF}"), ka, key("\u{09C7}"), ka]),
            ("numpad", vec![kp1, ka, kp1]),
            ("sug", vec![ka, key("\u{09BE}"), ka]),
        ];
        let cfg_json = |c: &Cfg| json!({"method": if c.is_phonetic() { "phonetic" } else { "fixed" }, "layout": c.layout, "sug": c.sug(), "numpad": c.numpad,
                                        "o": {"vowel": c.vowel, "chandra": c.chandra, "kar": c.kar, "reph": c.reph, "karorder": c.karorder}});
        let merge = |mut a: Value, b: Value| -> Value {
            for (k, v) in b.as_object().unwrap() {
                a[k] = v.clone();
            }
            a
        };
        for (flag, seq) in &seqs {
            for start in [false, true] {
                let set = |c: &mut Cfg, v: bool| match *flag {
                    "vowel" => c.vowel = v,
                    "chandra" => c.chandra = v,
                    "kar" => c.kar = v,
                    "reph" => c.reph = v,
                    "karorder" => c.karorder = v,
                    "numpad" => c.numpad = v,
                    _ => c.fsug = v,
                };
                let mut c0 = base.clone();
                set(&mut c0, start);
                let mut c1 = base.clone();
                set(&mut c1, !start);
                clean_home(&self.home);
                let mut ctx = match Ctx::new(&c0, &self.home) {
                    Ok(c) => c,
                    Err(_) => continue,
                };
                self.emit(json!({"ev": "new", "cfg": cfg_json(&c0)}));
                // the context is used before the update (the option is exercised under the old setting), each word finished
                for pass in 0..2 {
                    if pass == 1 {
                        let o = ctx.update(&c1);
                        self.emit(json!({"ev": "update", "cfg": cfg_json(&c1), "ongoing": o.ongoing, "panic": o.panic.clone().unwrap_or_default()}));
                        if o.kind == "panic" { break; }
                    }
                    let mut dead = false;
                    for k in seq.iter().flatten() {
                        let o = ctx.key(k.0, k.1, 0);
                        self.emit(merge(json!({"ev": "key", "code": k.0, "mod": k.1, "sel": 0}), Self::ret_fields(&o)));
                        if o.kind == "panic" { dead = true; break; }
                    }
                    if dead { break; }
                    let o = ctx.finish();
                    self.emit(json!({"ev": "finish", "ongoing": o.ongoing, "panic": o.panic.clone().unwrap_or_default()}));
                }
            }
        }
        // the suggestion switch of the phonetic method
        for start in [false, true] {
            let c0 = Cfg { layout: "phonetic".into(), psug: start, english: true, smart: true, db: true, ..Default::default() };
            let c1 = Cfg { psug: !start, ..c0.clone() };
            clean_home(&self.home);
            let mut ctx = match Ctx::new(&c0, &self.home) {
                Ok(c) => c,
                Err(_) => continue,
            };
            self.emit(json!({"ev": "new", "cfg": cfg_json(&c0)}));
            for pass in 0..2 {
                if pass == 1 {
                    let o = ctx.update(&c1);
                    self.emit(json!({"ev": "update", "cfg": cfg_json(&c1), "ongoing": o.ongoing, "panic": o.panic.clone().unwrap_or_default()}));
                }
                for ch in "ami".chars() {
                    let code = self.keys.code_for_char(ch).unwrap();
                    let o = ctx.key(code, 0, 0);
                    self.emit(merge(json!({"ev": "key", "code": code, "mod": 0, "sel": 0}), Self::ret_fields(&o)));
                }
                let o = ctx.finish();
                self.emit(json!({"ev": "finish", "ongoing": o.ongoing, "panic": o.panic.clone().unwrap_or_default()}));
            }
        }
    }

    pub fn driver_session(&mut self, rounds: usize, shard: usize, shards: usize) {
        let letters: Vec<u16> = "abcdefghijklmnopqrstuvwxyzABDGHJKNOSTZ".chars().filter_map(|c| self.keys.code_for_char(c)).collect();
        let all: Vec<u16> = self.keys.codes.iter().map(|k| k.code).collect();
        self.long_runs(shard, shards);
        self.suffix_stacks(shard, shards);
        self.key_pairs(shard, shards);
        self.option_flips(shard, shards);
        self.sel_edges(shard, shards);
        for _ in 0..rounds {
            clean_home(&self.home);
            let (mut cfg, j) = self.sess_cfg();
            let mut ctx = match Ctx::new(&cfg, &self.home) {
                Ok(c) => c,
                Err(p) => {
                    self.emit(json!({"ev": "key", "kind": "panic", "panic": p, "code": 0, "mod": 0, "sel": 0}));
                    continue;
                }
            };
            self.emit(json!({"ev": "new", "cfg": j}));
            let mut last = Obs { kind: "none".into(), ..Default::default() };
            let mut shown = false;
            let merge = |mut a: Value, b: Value| -> Value {
                for (k, v) in b.as_object().unwrap() {
                    a[k] = v.clone();
                }
                a
            };
            for _ in 0..(40 + self.rng.below(80)) {
                let r = self.rng.below(100);
                let last_len = last.len();
                if self.rng.below(60) == 0 {
                    // a burst: one key (any of the 111) pressed many times in a row - long compositions, where counters
                    // and distances leave their usual range
                    let code = if self.rng.below(2) == 0 { *self.rng.pick(&letters) } else { *self.rng.pick(&all) };
                    let m = if self.rng.below(4) == 0 { 1u8 } else { 0 };
                    let mut dead = false;
                    for _ in 0..(24 + self.rng.below(70)) {
                        let o = ctx.key(code, m, 0);
                        self.emit(merge(json!({"ev": "key", "code": code, "mod": m, "sel": 0}), Self::ret_fields(&o)));
                        if o.kind == "panic" { dead = true; break; }
                        shown = o.kind == "single" || (o.kind == "full" && !o.cands.is_empty());
                        last = o;
                    }
                    if dead { break; }
                } else if r < 68 {
                    let code = if self.rng.below(10) < 7 { *self.rng.pick(&letters) } else { *self.rng.pick(&all) };
                    let m = match self.rng.below(10) { 0 => 1u8, 1 => 2, 2 => 3, 3 => 0x82, _ => 0 };
                    let sel = if last.kind == "full" && last_len > 0 && self.rng.below(3) == 0 { self.rng.below(last_len.min(255)) as u8 } else { 0 };
                    let o = ctx.key(code, m, sel);
                    self.emit(merge(json!({"ev": "key", "code": code, "mod": m, "sel": sel}), Self::ret_fields(&o)));
                    if o.kind == "panic" { break; }
                    shown = o.kind == "single" || (o.kind == "full" && !o.cands.is_empty());
                    last = o;
                } else if r < 82 {
                    let ctrl = self.rng.below(8) == 0;
                    let o = ctx.backspace(ctrl);
                    self.emit(merge(json!({"ev": "bs", "ctrl": ctrl}), Self::ret_fields(&o)));
                    if o.kind == "panic" { break; }
                    shown = o.kind == "single" || (o.kind == "full" && !o.cands.is_empty());
                    last = o;
                } else if r < 90 {
                    if shown && last_len > 0 {
                        let idx = self.rng.below(last_len);
                        let o = ctx.commit(idx);
                        self.emit(json!({"ev": "commit", "idx": idx, "ongoing": o.ongoing, "panic": o.panic.clone().unwrap_or_default()}));
                        if o.kind == "panic" { break; }
                        shown = false;
                        last = Obs { kind: "none".into(), ..Default::default() };
                    }
                } else if r < 95 {
                    let o = ctx.finish();
                    self.emit(json!({"ev": "finish", "ongoing": o.ongoing, "panic": o.panic.clone().unwrap_or_default()}));
                    if o.kind == "panic" { break; }
                    shown = false;
                    last = Obs { kind: "none".into(), ..Default::default() };
                } else if !ctx.ongoing() {
                    let (c2, j2) = self.sess_cfg();
                    let o = ctx.update(&c2);
                    cfg = c2;
                    self.emit(json!({"ev": "update", "cfg": j2, "ongoing": o.ongoing, "panic": o.panic.clone().unwrap_or_default()}));
                    if o.kind == "panic" { break; }
                    shown = false;
                    last = Obs { kind: "none".into(), ..Default::default() };
                }
            }
            let _ = &cfg;
        }
    }
}
