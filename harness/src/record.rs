//! impl -> spec: drivers that run the real engine and record ndjson traces for TLC trace validation.
//! One object per API call, written after the call returned.  The recorder abstracts (texts as arrays
//! of one-code-point strings, facts from the oracles); it never evaluates a property.

use crate::engine::*;
use crate::keys::*;
use crate::oracles::*;
use crate::script::Rng;
use serde_json::{json, Value};
use std::io::Write;

pub fn chars(s: &str) -> Value {
    Value::Array(s.chars().map(|c| Value::String(c.to_string())).collect())
}

pub struct Recorder {
    pub out: std::io::BufWriter<std::fs::File>,
    pub n: u64,
    pub keys: Keys,
    pub or: Oracles,
    pub rng: Rng,
    pub home: std::path::PathBuf,
}

pub const BASE_WORDS: &[&str] = &[
    "as", "onno", "amar", "ami", "tumi", "sesh", "kkhet", "form", "apni", "bangla", "dhaka", "kotha", "bhalo", "mon", "din",
    "rat", "boi", "hothat", "ebong", "kintu", "tai", "jodi", "tobe", "shob", "kaj", "gan", "computer", "academy", "desh", "manush",
    "cool", "smile", "atm", "i", "a", "e", "o", "chup", "nam", "pani",
];
pub const SUFFIX_SAMPLE: &[&str] = &["e", "er", "gulo", "ra", "ke", "ta", "ti", "i", "o", "r", "te", "der", "guli", "mala", "tao", "tai", "eo"];

impl Recorder {
    pub fn new(path: &str, seed: u64) -> Recorder {
        Recorder {
            out: std::io::BufWriter::new(std::fs::File::create(path).unwrap()),
            n: 0,
            keys: Keys::load(),
            or: Oracles::load(),
            rng: Rng(seed.wrapping_mul(0x9E3779B97F4A7C15) | 1),
            home: scratch_home("record"),
        }
    }
    pub fn emit(&mut self, v: Value) {
        writeln!(self.out, "{}", serde_json::to_string(&v).unwrap()).unwrap();
        self.n += 1;
    }
    /// type a phonetic text, passing the preselected index last shown as selection byte
    pub fn type_text(&self, c: &mut Ctx, text: &str) -> Obs {
        self.type_text_sel(c, text).0
    }
    /// ... also returns the selection byte that was passed with the final key
    pub fn type_text_sel(&self, c: &mut Ctx, text: &str) -> (Obs, usize) {
        let mut last = Obs { kind: "none".into(), ..Default::default() };
        let mut psel = 0usize;
        for ch in text.chars() {
            let code = self.keys.code_for_char(ch).unwrap();
            let sel = if last.kind == "full" { last.sel.min(255) as u8 } else { 0 };
            psel = sel as usize;
            last = c.key(code, 0, sel);
            if last.kind == "panic" {
                break;
            }
        }
        (last, psel)
    }
    pub fn store_state(&self, home: &std::path::Path) -> &'static str {
        let f = home.join("openbangla-keyboard/phonetic-candidate-selection.json");
        match std::fs::read(&f) {
            Err(_) => "absent",
            Ok(b) => match serde_json::from_slice::<std::collections::HashMap<String, String>>(&b) {
                Ok(_) => "valid",
                Err(_) => "invalid",
            },
        }
    }

    /// C09 driver: commit-heavy sessions with restarts, re-typing, suffixed re-typing, wrapping punctuation.
    pub fn driver_store(&mut self, rounds: usize) {
        let punct_lead = ["", "", "(", "\"", "'", "[", "*", "\"'"];
        let punct_trail = ["", "", ")", "\"", "'", ".", "!", "?", ",", "'\"", "]"];
        for round in 0..rounds {
            let smart = self.rng.below(2) == 0;
            let cfg = Cfg { layout: "phonetic".into(), psug: true, english: self.rng.below(2) == 0, smart, db: true, ..Default::default() };
            clean_home(&self.home);
            self.emit(json!({"ev": "reset", "round": round, "cfg": cfg}));
            let mut ctx = Ctx::new(&cfg, &self.home).unwrap();
            let mut learned: Vec<(String, String, String)> = Vec::new(); // (lead, word, trail) typed with a learning commit
            for _ in 0..(6 + self.rng.below(6)) {
                let action = self.rng.below(10);
                let (lead, word, trail) = if action < 3 && !learned.is_empty() {
                    // re-type a learned text (same wrapping, another wrapping, or with a suffix)
                    let (l, w, t) = self.rng.pick(&learned).clone();
                    match self.rng.below(4) {
                        0 => (l, w, t),
                        1 => (self.rng.pick(&punct_lead).to_string(), w, self.rng.pick(&punct_trail).to_string()),
                        _ => (l, format!("{}{}", w, self.rng.pick(SUFFIX_SAMPLE)), t),
                    }
                } else {
                    (self.rng.pick(&punct_lead).to_string(), self.rng.pick(BASE_WORDS).to_string(), self.rng.pick(&punct_trail).to_string())
                };
                if self.rng.below(6) == 0 {
                    drop(ctx);
                    ctx = Ctx::new(&cfg, &self.home).unwrap();
                    self.emit(json!({"ev": "restart"}));
                }
                let typed = format!("{}{}{}", lead, word, trail);
                let (o, psel) = self.type_text_sel(&mut ctx, &typed);
                if o.kind != "full" {
                    self.emit(json!({"ev": "finish"}));
                    ctx.finish();
                    continue;
                }
                // facts for the spec (which part is punctuation is the spec's call): okkhor transliteration of
                // every prefix and every suffix of the typed text
                let tc: Vec<char> = typed.chars().collect();
                let tlp: Vec<Value> = (0..=tc.len()).map(|k| chars(&self.or.translit(&tc[..k].iter().collect::<String>()))).collect();
                let tls: Vec<Value> = (0..=tc.len()).map(|k| chars(&self.or.translit(&tc[tc.len() - k..].iter().collect::<String>()))).collect();
                self.emit(json!({"ev": "list", "typed": chars(&typed), "cands": o.cands.iter().map(|c| chars(c)).collect::<Vec<_>>(),
                                 "sel": o.sel, "psel": psel, "tlp": tlp, "tls": tls, "smart": smart}));
                let n = o.cands.len();
                let idx = if self.rng.below(2) == 0 && n > 1 { (o.sel + 1 + self.rng.below(n - 1)) % n } else { o.sel.min(n - 1) };
                let oc = ctx.commit(idx);
                self.emit(json!({"ev": "commit", "idx": idx, "panic": oc.panic.clone().unwrap_or_default()}));
                if oc.kind == "panic" {
                    ctx = Ctx::new(&cfg, &self.home).unwrap();
                    self.emit(json!({"ev": "restart"}));
                    continue;
                }
                if idx != o.sel {
                    learned.push((lead.clone(), word.clone(), trail.clone()));
                }
                let st = self.store_state(&self.home);
                self.emit(json!({"ev": "file", "state": st}));
            }
        }
    }
}
