//! Result accumulation shared by the replay / record drivers.  The harness prints exactly one JSON
//! summary object on its last stdout line; bin/check turns it into VIOLATION / KNOWN-FINDING lines
//! and the evidence file.

use serde::Serialize;
use serde_json::{json, Value};
use std::collections::BTreeMap;
use std::path::PathBuf;

#[derive(Default, Serialize)]
pub struct Report {
    pub property: String,
    /// replay lines / traces consumed
    pub behaviours: u64,
    /// engine events executed
    pub events: u64,
    /// comparisons made against an expectation from the specification
    pub compared: u64,
    /// behaviours that contain at least one non-trivial step (by the per-check rule)
    pub nontrivial: u64,
    pub violations: Vec<Value>,
    pub violation_count: u64,
    pub drift_count: u64,
    pub drift_samples: Vec<Value>,
    pub samples: Vec<Value>,
    pub notes: BTreeMap<String, u64>,
    #[serde(skip)]
    pub replay_dir: Option<PathBuf>,
    #[serde(skip)]
    pub max_stored: usize,
    /// stored violations per signature (site + description with digits and quoted text removed), so
    /// that many occurrences of one finding cannot crowd out a different violation
    #[serde(skip)]
    pub per_sig: BTreeMap<String, usize>,
}

fn signature(site: &str, what: &str) -> String {
    let mut out = String::from(site);
    out.push(':');
    let mut in_quote = false;
    for c in what.chars() {
        if c == '"' {
            in_quote = !in_quote;
            continue;
        }
        if in_quote || c.is_ascii_digit() {
            continue;
        }
        out.push(c);
        if out.len() > 90 {
            break;
        }
    }
    out
}

impl Report {
    pub fn new(property: &str, replay_dir: Option<PathBuf>) -> Report {
        Report {
            property: property.to_string(),
            replay_dir,
            max_stored: 200,
            ..Default::default()
        }
    }
    /// Record a violation; `case` must contain everything needed to reproduce it.
    pub fn violation(&mut self, site: &str, what: &str, case: Value) {
        self.violation_count += 1;
        let sig = signature(site, what);
        let n = self.per_sig.entry(sig).or_insert(0);
        *n += 1;
        if *n <= 3 && self.violations.len() < self.max_stored {
            let mut path = String::new();
            if let Some(dir) = &self.replay_dir {
                let _ = std::fs::create_dir_all(dir);
                let p = dir.join(format!("{}-{}.json", std::process::id(), self.violations.len()));
                let doc = json!({"property": self.property, "site": site, "what": what, "case": case});
                let _ = std::fs::write(&p, serde_json::to_string_pretty(&doc).unwrap());
                path = p.to_string_lossy().into_owned();
            }
            self.violations
                .push(json!({"site": site, "what": what, "replay": path, "case": case}));
        }
    }
    pub fn drift(&mut self, what: &str, case: Value) {
        self.drift_count += 1;
        if self.drift_samples.len() < 5 {
            self.drift_samples.push(json!({"what": what, "case": case}));
        }
    }
    pub fn sample(&mut self, v: Value) {
        if self.samples.len() < 3 {
            self.samples.push(v);
        }
    }
    pub fn note(&mut self, k: &str) {
        *self.notes.entry(k.to_string()).or_insert(0) += 1;
    }
    /// Merge the counts of another worker's report into this one.
    pub fn merge(&mut self, o: Report) {
        self.behaviours += o.behaviours;
        self.events += o.events;
        self.compared += o.compared;
        self.nontrivial += o.nontrivial;
        self.violation_count += o.violation_count;
        self.drift_count += o.drift_count;
        for v in o.violations {
            let sig = signature(v["site"].as_str().unwrap_or(""), v["what"].as_str().unwrap_or(""));
            let n = self.per_sig.entry(sig).or_insert(0);
            *n += 1;
            if *n <= 6 && self.violations.len() < self.max_stored {
                self.violations.push(v);
            }
        }
        for v in o.drift_samples {
            if self.drift_samples.len() < 5 {
                self.drift_samples.push(v);
            }
        }
        for v in o.samples {
            if self.samples.len() < 3 {
                self.samples.push(v);
            }
        }
        for (k, n) in o.notes {
            *self.notes.entry(k).or_insert(0) += n;
        }
    }
    pub fn finish(&self) {
        println!("RV-SUMMARY {}", serde_json::to_string(self).unwrap());
    }
}
