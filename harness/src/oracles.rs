//! Oracles that do not share code with riti's own use of them: okkhor's public parser called directly,
//! the JSON data files re-read with serde, emojicon's public tables, an own Levenshtein distance,
//! poriborton's public encoder.  They compute *facts*; they never evaluate a property.

use okkhor::parser::Parser;
use regex::Regex;
use std::collections::{HashMap, HashSet};

pub struct Oracles {
    pub phonetic: Parser,
    pub regex: Parser,
    pub dict: HashMap<String, Vec<String>>,
    pub dict_words: HashSet<String>,
    pub suffix: HashMap<String, String>,
    pub autocorrect: HashMap<String, String>,
    pub emoticons: HashMap<&'static str, &'static str>,
    pub emoji_names: HashMap<&'static str, &'static [&'static str]>,
    pub bn_emoji_names: HashMap<&'static str, &'static [&'static str]>,
    /// every emoji string of the emojicon tables
    pub all_emoji: Vec<&'static str>,
}

impl Oracles {
    pub fn load() -> Oracles {
        let data = crate::engine::repo_dir().join("data");
        let rd = |n: &str| std::fs::read(data.join(n)).unwrap();
        let dict: HashMap<String, Vec<String>> = serde_json::from_slice(&rd("dictionary.json")).unwrap();
        let dict_words = dict.values().flatten().cloned().collect();
        let emoticons = emojicon::internal::emoticons();
        let emoji_names = emojicon::internal::emojis();
        let bn_emoji_names = emojicon::internal::bn_emojis();
        let mut all: HashSet<&'static str> = emoticons.values().copied().collect();
        all.extend(emoji_names.values().flat_map(|l| l.iter().copied()));
        all.extend(bn_emoji_names.values().flat_map(|l| l.iter().copied()));
        let mut all_emoji: Vec<&'static str> = all.into_iter().collect();
        all_emoji.sort();
        Oracles {
            all_emoji,
            phonetic: Parser::new_phonetic(),
            regex: Parser::new_regex(),
            dict,
            dict_words,
            suffix: serde_json::from_slice(&rd("suffix.json")).unwrap(),
            autocorrect: serde_json::from_slice(&rd("autocorrect.json")).unwrap(),
            emoticons,
            emoji_names,
            bn_emoji_names,
        }
    }
    /// Does the candidate contain an emoji of the emojicon tables?
    pub fn has_table_emoji(&self, cand: &str) -> bool {
        if cand.chars().all(|c| (c as u32) < 0xA0 || (0x0980..=0x09FF).contains(&(c as u32)) || (0x2010..=0x201F).contains(&(c as u32)) || c == '\u{200C}' || c == '\u{200D}' || c == '\u{0964}') {
            return false;
        }
        self.all_emoji.iter().any(|e| cand.contains(e))
    }
    /// Avro transliteration (the oracle the statement of C03 names).
    pub fn translit(&self, s: &str) -> String {
        self.phonetic.convert(s)
    }
    /// Dictionary words whose spelling matches the Avro pattern of `word` (independent of riti's
    /// first-letter tables: the whole dictionary is scanned).
    pub fn dict_matches(&self, word: &str) -> Vec<String> {
        let rx = self.regex.convert_regex(word);
        match Regex::new(&rx) {
            Ok(r) => self.dict.values().flatten().filter(|w| r.is_match(w)).cloned().collect(),
            Err(_) => Vec::new(),
        }
    }
    pub fn is_dict_match(&self, word: &str, cand: &str) -> bool {
        if !self.dict_words.contains(cand) {
            return false;
        }
        let rx = self.regex.convert_regex(word);
        Regex::new(&rx).map(|r| r.is_match(cand)).unwrap_or(false)
    }
}

/// Levenshtein distance over code points.
pub fn levenshtein(a: &str, b: &str) -> usize {
    let a: Vec<char> = a.chars().collect();
    let b: Vec<char> = b.chars().collect();
    let mut prev: Vec<usize> = (0..=b.len()).collect();
    for i in 1..=a.len() {
        let mut cur = vec![i; b.len() + 1];
        for j in 1..=b.len() {
            let sub = prev[j - 1] + if a[i - 1] == b[j - 1] { 0 } else { 1 };
            cur[j] = sub.min(prev[j] + 1).min(cur[j - 1] + 1);
        }
        prev = cur;
    }
    prev[b.len()]
}

pub fn uncurl(s: &str) -> String {
    s.chars()
        .map(|c| match c {
            '\u{2018}' | '\u{2019}' => '\'',
            '\u{201C}' | '\u{201D}' => '"',
            o => o,
        })
        .collect()
}

pub fn has_bengali(s: &str) -> bool {
    s.chars().any(|c| ('\u{0980}'..='\u{09FF}').contains(&c))
}

pub fn bijoy(s: &str) -> Option<String> {
    let s = s.to_string();
    std::panic::catch_unwind(move || poriborton::bijoy2000::unicode_to_bijoy(&s)).ok()
}
