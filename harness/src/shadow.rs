//! Whole-system sessions with a shadow: realistic mixed histories of one live context (dictionary-guided words typed key by
//! key with corrections, valid selection bytes, learning commits, finish, ctrl-backspace, update-engine while idle to another
//! configuration - optionally after an edit of the user's auto-correct file -, restarts over the same user-data directory),
//! in which the suggestion returned by the live context is compared, event by event, with the one a BRAND-NEW context gives
//! for the same surviving text (same configuration, same user files).  The comparison itself is a primitive equality of two
//! renderings made here; WHEN it is owed, and to which property a difference belongs (C05 history independence, C06 fresh
//! after a terminating event, C09 remembered after a restart, C11 update = new), is decided by Trace_Session.
//!
//! Also here: `sel_edges` - the caller passes the LAST valid index of the list on screen with every one of the 111 keys
//! (C02: the preselected index of the list returned next must lie inside THAT list).

use crate::engine::{clean_home, Cfg, Ctx, Obs};
use crate::keys::LayoutInv;
use crate::record::{chars, Recorder, BASE_WORDS, SUFFIX_SAMPLE};
use serde_json::{json, Value};

const PRESERVE: &str = ".?!,:;-_)}]'\"";

fn merge(mut a: Value, b: Value) -> Value {
    for (k, v) in b.as_object().unwrap() {
        a[k] = v.clone();
    }
    a
}

fn cfg_json(c: &Cfg) -> Value {
    let phon = c.is_phonetic();
    json!({"method": if phon { "phonetic" } else { "fixed" }, "layout": c.layout, "sug": c.sug(), "numpad": c.numpad, "ansi": c.ansi,
           "o": {"vowel": c.vowel, "chandra": c.chandra, "kar": c.kar, "reph": c.reph, "karorder": c.karorder}})
}

/// What a user can see of two returned suggestions differs?  (None = equal.)
fn differs(live: &Obs, fresh: &Obs, with_sel: bool) -> Option<String> {
    let show = |o: &Obs| format!("{} aux={:?} sel={} cands={:?} ongoing={}", o.kind, o.aux, o.sel, o.cands.iter().take(12).collect::<Vec<_>>(), o.ongoing);
    let same = live.kind == fresh.kind && live.aux == fresh.aux && live.cands == fresh.cands && live.pre == fresh.pre
        && live.ongoing == fresh.ongoing && (!with_sel || live.sel == fresh.sel);
    if same {
        None
    } else {
        Some(format!("the used context answers [{}], a brand-new context over the same files answers [{}]", show(live), show(fresh)))
    }
}

struct Word {
    /// phonetic: the characters that survive in the composition
    comp: String,
    /// fixed: the keys of the current word
    keys: Vec<(u16, u8)>,
    /// fixed: a backspace was used in the current word (the surviving text cannot be re-typed key by key)
    bs: bool,
}

impl Word {
    fn new() -> Word {
        Word { comp: String::new(), keys: Vec::new(), bs: false }
    }
    fn clear(&mut self) {
        self.comp.clear();
        self.keys.clear();
        self.bs = false;
    }
}

impl Recorder {
    /// Facts about the output encoding of a returned suggestion (C16): does a candidate hold an emoji of the tables, does a
    /// pre-edit text hold a Bengali-block code point, is every pre-edit text the candidate itself / its Bijoy encoding.
    fn ansi_facts(&self, o: &Obs) -> Value {
        self.ansi_facts_for(o, "")
    }
    /// ... `typed`: the text typed so far (phonetic method) - is it offered as it was typed although it holds letters?  (the
    /// transliteration, a dictionary word or an auto-correct entry of a text with Latin letters is never that text itself)
    fn ansi_facts_for(&self, o: &Obs, typed: &str) -> Value {
        let mut v = self.ansi_facts_inner(o);
        v["rawoffered"] = json!(!typed.is_empty() && typed.chars().any(|c| c.is_ascii_alphabetic()) && (o.kind == "full" || o.kind == "single") && o.cands.iter().any(|c| c == typed));
        v
    }
    fn ansi_facts_inner(&self, o: &Obs) -> Value {
        let texts: Vec<&String> = if o.kind == "full" || o.kind == "single" { o.cands.iter().collect() } else { Vec::new() };
        let known = texts.iter().any(|c| crate::record::known_unencodable(c));
        json!({"anyemoji": texts.iter().any(|c| self.or.has_table_emoji(c)),
               "prebn": o.pre.iter().any(|p| p.as_deref().map(crate::oracles::has_bengali).unwrap_or(false)),
               "preeq": texts.iter().zip(o.pre.iter()).all(|(c, p)| p.as_deref() == Some(c.as_str())),
               "prebijoy": known || texts.iter().zip(o.pre.iter()).all(|(c, p)| p.is_some() && *p == crate::oracles::bijoy(c))})
    }

    /// The suggestion a brand-new context gives for the surviving text; ("eq" | "diff" | "na", description).
    fn shadow_compare(&self, cfg: &Cfg, w: &Word, live: &Obs, last_was_char_key: bool, sel: u8) -> (&'static str, String) {
        if live.kind == "panic" || live.kind == "none" {
            return ("na", String::new());
        }
        let phon = cfg.is_phonetic();
        if phon && w.comp.is_empty() || !phon && (w.keys.is_empty() || w.bs) {
            return ("na", String::new());
        }
        let mut fresh = match Ctx::new(cfg, &self.home) {
            Ok(c) => c,
            Err(p) => return ("diff", format!("a brand-new context over the same files cannot be created: {}", p)),
        };
        let mut o = Obs::default();
        if phon {
            let cs: Vec<char> = w.comp.chars().collect();
            for (i, ch) in cs.iter().enumerate() {
                let code = match self.keys.code_for_char(*ch) {
                    Some(c) => c,
                    None => return ("na", String::new()),
                };
                let s = if i + 1 == cs.len() && last_was_char_key { sel } else { 0 };
                o = fresh.key(code, 0, s);
                if o.kind == "panic" {
                    return ("diff", format!("the brand-new context panicked while typing {:?}: {}", w.comp, o.panic.unwrap_or_default()));
                }
            }
            // the echoed selection byte (punctuation keys) belongs to the final KEY; after a backspace or a key without
            // character the used context reports the computed index instead
            let echo = cs.last().map(|c| PRESERVE.contains(*c)).unwrap_or(false);
            match differs(live, &o, last_was_char_key || !echo) {
                None => ("eq", String::new()),
                Some(d) => ("diff", format!("text {:?}: {}", w.comp, d)),
            }
        } else {
            for (i, (code, m)) in w.keys.iter().enumerate() {
                let s = if i + 1 == w.keys.len() { sel } else { 0 };
                o = fresh.key(*code, *m, s);
                if o.kind == "panic" {
                    return ("diff", format!("the brand-new context panicked while pressing the keys of the word: {}", o.panic.unwrap_or_default()));
                }
            }
            match differs(live, &o, true) {
                None => ("eq", String::new()),
                Some(d) => ("diff", format!("keys {:?}: {}", w.keys, d)),
            }
        }
    }

    fn shadow_cfg(&mut self) -> Cfg {
        let phon = self.rng.below(5) < 3;
        let b = |r: &mut crate::script::Rng| r.below(2) == 0;
        let layout = if phon { "phonetic" } else if self.rng.below(3) < 2 { "probhat" } else { "synth" };
        let sug = self.rng.below(5) < 4;
        Cfg {
            layout: layout.into(), psug: phon && sug, fsug: !phon && sug, english: b(&mut self.rng), ansi: self.rng.below(6) == 0, smart: b(&mut self.rng),
            vowel: b(&mut self.rng), chandra: b(&mut self.rng), kar: b(&mut self.rng), reph: b(&mut self.rng), numpad: b(&mut self.rng),
            karorder: self.rng.below(3) == 0, db: true, altdb: false,
        }
    }

    /// Replace the user's auto-correct file (explicit, strictly increasing modification times: the granularity of the file
    /// system's time stamps cannot make a reload look unnecessary).
    fn shadow_write_ac(&mut self, stamp: u64, pool: &[String]) -> String {
        let p = self.home.join("openbangla-keyboard").join("autocorrect.json");
        let how = self.rng.below(10);
        if how == 0 {
            let _ = std::fs::remove_file(&p);
            return "removed".into();
        }
        let mut m = serde_json::Map::new();
        if how != 1 {
            let reps = ["amra", "tumi", "OI", "kkhoma", "bangla", "a", "rri", "k", "", "onno"];
            for _ in 0..(1 + self.rng.below(4)) {
                let k = self.rng.pick(pool).clone();
                let k: String = k.chars().filter(|c| c.is_ascii_alphanumeric()).collect();
                if k.is_empty() {
                    continue;
                }
                m.insert(k, Value::String(self.rng.pick(&reps).to_string()));
            }
        }
        std::fs::write(&p, serde_json::to_vec(&Value::Object(m.clone())).unwrap()).unwrap();
        if let Ok(f) = std::fs::OpenOptions::new().write(true).open(&p) {
            let _ = f.set_modified(std::time::UNIX_EPOCH + std::time::Duration::from_secs(1_700_000_000 + stamp * 10));
        }
        format!("{} entries", m.len())
    }

    pub fn driver_shadow(&mut self, rounds: usize, _shard: usize, _shards: usize) {
        // word pools
        let mut ppool: Vec<String> = BASE_WORDS.iter().map(|s| s.to_string()).collect();
        for b in BASE_WORDS.iter().step_by(2) {
            for s in SUFFIX_SAMPLE.iter().step_by(3) {
                ppool.push(format!("{}{}", b, s));
            }
        }
        let mut ac: Vec<String> = self.or.autocorrect.keys().filter(|k| k.is_ascii() && k.len() <= 8).cloned().collect();
        ac.sort();
        ppool.extend(ac.iter().step_by(23).cloned());
        let mut emo: Vec<String> = self.or.emoticons.keys().map(|s| s.to_string()).collect();
        emo.sort();
        ppool.extend(emo.iter().step_by(17).cloned());
        let mut en: Vec<String> = self.or.emoji_names.keys().filter(|k| k.len() <= 7).map(|s| s.to_string()).collect();
        en.sort();
        ppool.extend(en.iter().step_by(61).cloned());
        for w in ["maTi", "mati", "kaTa", "kata", "paRa", "para", "sesh:", "a.", "\"a\"", "(sesh)", "'amar'", "`", "k`", "1.5", ".5", "a`b"] {
            ppool.push(w.to_string());
        }
        let mut dwords: Vec<String> = self.or.dict_words.iter().filter(|w| w.chars().count() <= 7).cloned().collect();
        dwords.sort();
        let fpool: Vec<String> = dwords.iter().step_by(211).cloned().collect();
        let mut bnames: Vec<String> = self.or.bn_emoji_names.keys().map(|s| s.to_string()).collect();
        bnames.sort();
        let letters: Vec<u16> = "abcdefghijklmnopqrstuvwxyzABDGHJKNOSTZ".chars().filter_map(|c| self.keys.code_for_char(c)).collect();
        let all: Vec<u16> = self.keys.codes.iter().map(|k| k.code).collect();
        let nochar: Vec<u16> = self.keys.codes.iter().filter(|k| k.ch.is_empty()).map(|k| k.code).collect();
        let lead = ["", "", "", "(", "\"", "'", "[", "\"("];
        let trail = ["", "", "", ")", "\"", "'", ".", "?", ",", ")\"", ":", "!"];

        self.flip_retype(_shard, _shards);
        self.lonely_commits(_shard, _shards);
        self.learn_last_then_flip(_shard, _shards);
        self.memo_boundaries(_shard, _shards);
        self.derived_then_learn(_shard, _shards);
        for _ in 0..rounds {
            clean_home(&self.home);
            let mut stamp = 1u64;
            if self.rng.below(3) == 0 {
                self.shadow_write_ac(stamp, &ppool);
            }
            let mut cfg = self.shadow_cfg();
            let mut ctx = match Ctx::new(&cfg, &self.home) {
                Ok(c) => c,
                Err(p) => {
                    self.emit(json!({"ev": "key", "kind": "panic", "panic": p, "code": 0, "mod": 0, "sel": 0}));
                    continue;
                }
            };
            self.emit(json!({"ev": "new", "cfg": cfg_json(&cfg)}));
            let mut w = Word::new();
            let mut last = Obs { kind: "none".into(), ..Default::default() };
            let mut boundary = true; // the next returned suggestion is the first after a terminating event / update / restart
            let mut dead = false;
            let words = 14 + self.rng.below(14);
            // the words of this session (per method and layout), to be typed AGAIN after a re-configuration or a restart:
            // whatever the context remembers about a word it has seen must not outlive the configuration it was computed under
            let mut history: Vec<(String, Vec<(u16, u8)>)> = Vec::new();
            let mut retype = false;
            'session: for _ in 0..words {
                // ----- the key events of one "word"
                let phon = cfg.is_phonetic();
                let mut plan: Vec<(u16, u8)> = Vec::new();
                let r = self.rng.below(10);
                let again: Vec<&(String, Vec<(u16, u8)>)> = history.iter().filter(|(l, _)| *l == cfg.layout).collect();
                if (retype || self.rng.below(8) == 0) && !again.is_empty() {
                    plan = again[self.rng.below(again.len())].1.clone();
                    retype = false;
                } else if r < 7 {
                    if phon {
                        let mut t = self.rng.pick(&ppool).clone();
                        if self.rng.below(3) == 0 {
                            t = format!("{}{}{}", self.rng.pick(&lead), t, self.rng.pick(&trail));
                        }
                        plan = t.chars().filter_map(|c| self.keys.code_for_char(c)).map(|c| (c, 0u8)).collect();
                    } else {
                        let inv = LayoutInv::load(&cfg, &self.keys);
                        let t = if self.rng.below(8) == 0 { self.rng.pick(&bnames).clone() } else { self.rng.pick(&fpool).clone() };
                        let wrap = self.rng.below(3) == 0;
                        let mut vals: Vec<String> = Vec::new();
                        if wrap { vals.extend(self.rng.pick(&lead).chars().map(|c| c.to_string())); }
                        vals.extend(t.chars().map(|c| c.to_string()));
                        if wrap { vals.extend(self.rng.pick(&trail).chars().map(|c| c.to_string())); }
                        plan = vals.iter().filter_map(|v| inv.key_for_value(v)).collect();
                        if self.rng.below(10) == 0 {
                            // an emoticon by its raw keys
                            plan = self.rng.pick(&emo).chars().filter_map(|c| self.keys.code_for_char(c)).map(|c| (c, 0u8)).collect();
                        }
                    }
                } else {
                    for _ in 0..(1 + self.rng.below(7)) {
                        let code = if self.rng.below(10) < 7 { *self.rng.pick(&letters) } else { *self.rng.pick(&all) };
                        // (any modifier byte: Shift / AltGr bits, stray bits in every position)
                        let m = match self.rng.below(12) { 0 => 1u8, 1 => 2, 2 => 3, 3 => 0x82, 4 => 4, 5 => 6, 6 => self.rng.below(256) as u8, _ => 0 };
                        plan.push((code, m));
                    }
                }
                if history.len() < 40 && !plan.is_empty() {
                    history.push((cfg.layout.clone(), plan.clone()));
                }
                let mut i = 0usize;
                let mut guard = 0;
                while i < plan.len() && guard < 60 {
                    guard += 1;
                    let last_len = last.len();
                    let edit = self.rng.below(12);
                    if edit == 0 && (!w.comp.is_empty() || !w.keys.is_empty()) {
                        // a correction: backspace (rarely ctrl), then go on
                        let ctrl = self.rng.below(10) == 0;
                        let o = ctx.backspace(ctrl);
                        if o.kind == "panic" {
                            self.emit(merge(json!({"ev": "bs", "ctrl": ctrl, "fresh": "na", "fwhat": ""}), Self::ret_fields(&o)));
                            dead = true;
                            break 'session;
                        }
                        if o.kind == "empty" {
                            w.clear();
                        } else if phon {
                            w.comp.pop();
                        } else {
                            w.bs = true;
                        }
                        let (f, what) = if boundary || self.rng.below(2) == 0 { self.shadow_compare(&cfg, &w, &o, false, 0) } else { ("skip", String::new()) };
                        let af = self.ansi_facts(&o);
                        self.emit(merge(merge(json!({"ev": "bs", "ctrl": ctrl, "fresh": f, "fwhat": what}), Self::ret_fields(&o)), af));
                        if o.kind != "empty" { boundary = false; } else { boundary = true; }
                        last = o;
                        if i > 0 && self.rng.below(2) == 0 { i -= 1; }
                        continue;
                    }
                    // a slip: a wrong key (punctuation or a letter) and a backspace that takes it away again - between any two keys of
                    // the word, so also between a base and its suffix (phonetic method)
                    if phon && i > 0 && self.rng.below(14) == 0 {
                        let junk = *self.rng.pick(&['.', ',', ';', '(', 'a', 'k', '-', '"']);
                        if let Some(jc) = self.keys.code_for_char(junk) {
                            let o = ctx.key(jc, 0, 0);
                            if o.kind == "panic" {
                                self.emit(merge(json!({"ev": "key", "code": jc, "mod": 0, "sel": 0, "fresh": "na", "fwhat": ""}), Self::ret_fields(&o)));
                                dead = true;
                                break 'session;
                            }
                            w.comp.push(junk);
                            self.emit(merge(json!({"ev": "key", "code": jc, "mod": 0, "sel": 0, "fresh": "skip", "fwhat": ""}), Self::ret_fields(&o)));
                            let o = ctx.backspace(false);
                            if o.kind == "panic" {
                                self.emit(merge(json!({"ev": "bs", "ctrl": false, "fresh": "na", "fwhat": ""}), Self::ret_fields(&o)));
                                dead = true;
                                break 'session;
                            }
                            if o.kind == "empty" { w.clear(); } else { w.comp.pop(); }
                            let (f, what) = self.shadow_compare(&cfg, &w, &o, false, 0);
                            self.emit(merge(json!({"ev": "bs", "ctrl": false, "fresh": f, "fwhat": what}), Self::ret_fields(&o)));
                            boundary = o.kind == "empty";
                            last = o;
                        }
                    }
                    // now and then a key WITHOUT a character (keypad Enter / Equals in the phonetic method, a key the layout leaves
                    // unassigned in the fixed one) in the middle of the word: it changes nothing
                    let (code, m) = if !nochar.is_empty() && self.rng.below(25) == 0 { (*self.rng.pick(&nochar), 0u8) } else { i += 1; plan[i - 1] };
                    let sel = if last.kind == "full" && last_len > 0 {
                        match self.rng.below(4) { 0 => self.rng.below(last_len.min(255)) as u8, 1 => (last_len.min(255) - 1) as u8, _ => last.sel.min(last_len - 1).min(255) as u8 }
                    } else { 0 };
                    let o = ctx.key(code, m, sel);
                    if o.kind == "panic" {
                        self.emit(merge(json!({"ev": "key", "code": code, "mod": m, "sel": sel, "fresh": "na", "fwhat": ""}), Self::ret_fields(&o)));
                        dead = true;
                        break 'session;
                    }
                    let ch = self.keys.char_for_code(code);
                    if phon {
                        if let Some(c) = ch { w.comp.push(c); }
                    } else {
                        w.keys.push((code, m));
                    }
                    let cmp = boundary || self.rng.below(3) == 0 || i == plan.len();
                    let (f, what) = if cmp { self.shadow_compare(&cfg, &w, &o, !phon || ch.is_some(), sel) } else { ("skip", String::new()) };
                    let af = self.ansi_facts_for(&o, if phon { w.comp.as_str() } else { "" });
                    self.emit(merge(merge(json!({"ev": "key", "code": code, "mod": m, "sel": sel, "fresh": f, "fwhat": what}), Self::ret_fields(&o)), af));
                    if o.kind == "single" || o.kind == "full" { boundary = false; }
                    last = o;
                }
                // ----- how the word ends
                let shown = last.kind == "single" || (last.kind == "full" && !last.cands.is_empty());
                let e = self.rng.below(20);
                if e < 11 && shown && last.len() > 0 {
                    let n = last.len();
                    let idx = match self.rng.below(4) { 0 => self.rng.below(n), 1 => 0, 2 => n - 1, _ => last.sel.min(n - 1) };
                    let store = self.home.join("openbangla-keyboard/phonetic-candidate-selection.json");
                    let before = std::fs::read(&store).ok();
                    let o = ctx.commit(idx);
                    let after = std::fs::read(&store).ok();
                    // may this commit have been a learning one?  (a list-style suggestion and another index than the one the engine
                    // computed; after a punctuation key the REPORTED index is the caller's byte, the computed one is not visible)
                    let echo = w.comp.chars().last().map(|c| PRESERVE.contains(c)).unwrap_or(false);
                    let learnable = last.kind == "full" && cfg.is_phonetic() && (idx != last.sel || echo);
                    self.emit(json!({"ev": "commit", "idx": idx, "ongoing": o.ongoing, "panic": o.panic.clone().unwrap_or_default(),
                                     "filechg": before != after, "learnable": learnable}));
                    if o.kind == "panic" { dead = true; break 'session; }
                } else if e < 15 {
                    let o = ctx.finish();
                    self.emit(json!({"ev": "finish", "ongoing": o.ongoing, "panic": o.panic.clone().unwrap_or_default()}));
                    if o.kind == "panic" { dead = true; break 'session; }
                } else if e < 17 {
                    let o = ctx.backspace(true);
                    self.emit(merge(json!({"ev": "bs", "ctrl": true, "fresh": "na", "fwhat": ""}), Self::ret_fields(&o)));
                    if o.kind == "panic" { dead = true; break 'session; }
                    if ctx.ongoing() {
                        // (ctrl-backspace on a composition that only holds a waiting sign: not a terminating event)
                        let o = ctx.finish();
                        self.emit(json!({"ev": "finish", "ongoing": o.ongoing, "panic": o.panic.clone().unwrap_or_default()}));
                    }
                } else {
                    // leave the word by backspaces down to the idle state
                    let mut n = 0;
                    while ctx.ongoing() && n < 80 {
                        n += 1;
                        let o = ctx.backspace(false);
                        self.emit(merge(json!({"ev": "bs", "ctrl": false, "fresh": "skip", "fwhat": ""}), Self::ret_fields(&o)));
                        if o.kind == "panic" { dead = true; break 'session; }
                    }
                    if ctx.ongoing() {
                        let o = ctx.finish();
                        self.emit(json!({"ev": "finish", "ongoing": o.ongoing, "panic": o.panic.clone().unwrap_or_default()}));
                    }
                }
                w.clear();
                last = Obs { kind: "none".into(), ..Default::default() };
                boundary = true;
                // ----- between words: re-configuration / restart
                let b = self.rng.below(12);
                if b == 0 || b == 1 {
                    if self.rng.below(2) == 0 {
                        stamp += 1;
                        self.shadow_write_ac(stamp, &ppool);
                    }
                    let c2 = if self.rng.below(3) == 0 {
                        // one option flipped, same method and layout
                        let mut c = cfg.clone();
                        match self.rng.below(9) {
                            0 => c.english = !c.english, 1 => c.smart = !c.smart, 2 => c.ansi = !c.ansi, 3 => c.kar = !c.kar, 4 => c.vowel = !c.vowel,
                            5 => c.numpad = !c.numpad, 6 => c.karorder = !c.karorder, 7 => c.chandra = !c.chandra,
                            _ => { if c.is_phonetic() { c.psug = !c.psug } else { c.fsug = !c.fsug } }
                        }
                        c
                    } else { self.shadow_cfg() };
                    let o = ctx.update(&c2);
                    cfg = c2;
                    self.emit(json!({"ev": "update", "cfg": cfg_json(&cfg), "ongoing": o.ongoing, "panic": o.panic.clone().unwrap_or_default()}));
                    if o.kind == "panic" { dead = true; break 'session; }
                    retype = self.rng.below(3) < 2;
                } else if b == 2 {
                    // restart: a new context over the same user-data directory
                    drop(ctx);
                    ctx = match Ctx::new(&cfg, &self.home) {
                        Ok(c) => c,
                        Err(p) => {
                            self.emit(json!({"ev": "key", "kind": "panic", "panic": p, "code": 0, "mod": 0, "sel": 0}));
                            dead = true;
                            break 'session;
                        }
                    };
                    self.emit(json!({"ev": "new", "cfg": cfg_json(&cfg), "restart": true}));
                    retype = self.rng.below(3) < 2;
                }
            }
            let _ = dead;
        }
    }

    /// Directed: every single option flipped by update-engine on an idle context (and flipped back), with the SAME word typed
    /// before the update, after it and after the flip back - compared with a brand-new context each time.  Both methods with
    /// suggestions on, words whose lists depend on the options (completions with ু ূ ৃ, wrapped words, emoji names, emoticons).
    fn flip_retype(&mut self, shard: usize, shards: usize) {
        let base = |phon: bool| Cfg {
            layout: if phon { "phonetic".into() } else { "probhat".into() }, psug: phon, fsug: !phon, english: true, ansi: false, smart: false,
            vowel: true, chandra: true, kar: false, reph: true, numpad: true, karorder: false, db: true, altdb: false,
        };
        let mut n = 0usize;
        for phon in [true, false] {
            let cfg0 = base(phon);
            let plans: Vec<Vec<(u16, u8)>> = if phon {
                ["amar", "sesh", "help", ":)", "\"a\"", "(kkhet)", "onnogulo", "1"].iter()
                    .map(|t| t.chars().filter_map(|c| self.keys.code_for_char(c)).map(|c| (c, 0u8)).collect()).collect()
            } else {
                let inv = LayoutInv::load(&cfg0, &self.keys);
                let mut v: Vec<Vec<(u16, u8)>> = Vec::new();
                for w in ["\u{09B2}\u{099C}\u{09CD}\u{099C}\u{09BE}", "\u{09AC}\u{09A8}\u{09CD}\u{09A7}", "\u{0995}\u{09AE}", "\u{09A6}\u{09BE}\u{09B0}",
                          "\"\u{0995}\u{09B2}\"", "\u{09B9}\u{09BE}\u{09B8}\u{09BF}", "\u{09E7}"] {
                    let p: Vec<(u16, u8)> = w.chars().filter_map(|c| inv.key_for_value(&c.to_string())).collect();
                    if p.len() == w.chars().count() {
                        v.push(p);
                    }
                }
                v.push(":)".chars().filter_map(|c| self.keys.code_for_char(c)).map(|c| (c, 0u8)).collect());
                v
            };
            // (flip 11: the context is CREATED with ANSI on, switched off and on again: whatever is prepared at creation for the
            //  configuration of that moment must not be missing afterwards)
            for flip in 0..12 {
                let cfg0 = if flip == 11 { Cfg { ansi: true, ..cfg0.clone() } } else { cfg0.clone() };
                let mut c1 = cfg0.clone();
                match flip {
                    0 => c1.english = !c1.english, 1 => c1.smart = !c1.smart, 2 => c1.ansi = !c1.ansi, 3 => c1.kar = !c1.kar, 4 => c1.vowel = !c1.vowel,
                    5 => c1.chandra = !c1.chandra, 6 => c1.reph = !c1.reph, 7 => c1.numpad = !c1.numpad, 8 => c1.karorder = !c1.karorder,
                    9 => c1.psug = !c1.psug, 10 => c1.fsug = !c1.fsug, _ => c1.ansi = !c1.ansi,
                }
                for plan in &plans {
                    n += 1;
                    if n % shards.max(1) != shard % shards.max(1) {
                        continue;
                    }
                    clean_home(&self.home);
                    let mut ctx = match Ctx::new(&cfg0, &self.home) { Ok(c) => c, Err(_) => continue };
                    self.emit(json!({"ev": "new", "cfg": cfg_json(&cfg0)}));
                    let mut cur = cfg0.clone();
                    'passes: for pass in 0..3 {
                        if pass > 0 {
                            cur = if pass == 1 { c1.clone() } else { cfg0.clone() };
                            let o = ctx.update(&cur);
                            self.emit(json!({"ev": "update", "cfg": cfg_json(&cur), "ongoing": o.ongoing, "panic": o.panic.clone().unwrap_or_default()}));
                            if o.kind == "panic" { break 'passes; }
                        }
                        // (under the flipped configuration the word is followed by ANOTHER word: whatever is remembered "for the last
                        // word" then belongs to that one when the first configuration comes back)
                        let other: &Vec<(u16, u8)> = &plans[(n + 1) % plans.len()];
                        let texts: Vec<&Vec<(u16, u8)>> = if pass == 1 { vec![plan, other] } else { vec![plan] };
                        for plan in texts {
                            let mut w = Word::new();
                            for (i, (code, m)) in plan.iter().enumerate() {
                                let o = ctx.key(*code, *m, 0);
                                if o.kind == "panic" {
                                    self.emit(merge(json!({"ev": "key", "code": code, "mod": m, "sel": 0, "fresh": "na", "fwhat": ""}), Self::ret_fields(&o)));
                                    break 'passes;
                                }
                                let ch = self.keys.char_for_code(*code);
                                if cur.is_phonetic() { if let Some(c) = ch { w.comp.push(c); } } else { w.keys.push((*code, *m)); }
                                let (f, what) = if i + 1 == plan.len() || i == 0 { self.shadow_compare(&cur, &w, &o, true, 0) } else { ("skip", String::new()) };
                                let af = self.ansi_facts(&o);
                                self.emit(merge(merge(json!({"ev": "key", "code": code, "mod": m, "sel": 0, "fresh": f, "fwhat": what}), Self::ret_fields(&o)), af));
                            }
                            let o = ctx.finish();
                            self.emit(json!({"ev": "finish", "ongoing": o.ongoing, "panic": o.panic.clone().unwrap_or_default()}));
                            if o.kind == "panic" { break 'passes; }
                        }
                    }
                }
            }
        }
    }

    /// Directed: the list option switched off and on again by update-engine around commits.  A word with a learned choice is
    /// typed (its list preselects a non-zero index) and committed as preselected; update-engine switches the list off; another
    /// word is committed as single-string suggestion (index 0 - nothing can be learned: the store file must not change);
    /// update-engine switches the list on again and both words are typed once more, compared with a brand-new context.
    fn lonely_commits(&mut self, shard: usize, shards: usize) {
        let words = ["e", "sesh", "amar", "a"];
        for (n, (w1, w2)) in [(0usize, 3usize), (1, 2), (2, 0), (3, 1)].iter().enumerate() {
            if n % shards.max(1) != shard % shards.max(1) {
                continue;
            }
            let on = Cfg { layout: "phonetic".into(), psug: true, english: n % 2 == 0, smart: n % 2 == 1, db: true, ..Default::default() };
            let off = Cfg { psug: false, ..on.clone() };
            clean_home(&self.home);
            let mut ctx = match Ctx::new(&on, &self.home) { Ok(c) => c, Err(_) => continue };
            self.emit(json!({"ev": "new", "cfg": cfg_json(&on)}));
            let store = self.home.join("openbangla-keyboard/phonetic-candidate-selection.json");
            // (text, configuration in force, commit: 0 = index 0, 1 = another index than the preselected one, 2 = the preselected one)
            let script: Vec<(Option<&Cfg>, &str, usize)> = vec![
                (None, words[*w1], 1), (None, words[*w1], 2), (Some(&off), words[*w2], 0), (Some(&on), words[*w2], 2), (None, words[*w1], 2)];
            let mut cur = on.clone();
            'steps: for (upd, text, how) in script {
                if let Some(c2) = upd {
                    let o = ctx.update(c2);
                    cur = c2.clone();
                    self.emit(json!({"ev": "update", "cfg": cfg_json(&cur), "ongoing": o.ongoing, "panic": o.panic.clone().unwrap_or_default()}));
                    if o.kind == "panic" { break 'steps; }
                }
                let mut w = Word::new();
                let mut last = Obs::default();
                for (i, ch) in text.chars().enumerate() {
                    let code = self.keys.code_for_char(ch).unwrap();
                    let o = ctx.key(code, 0, 0);
                    if o.kind == "panic" {
                        self.emit(merge(json!({"ev": "key", "code": code, "mod": 0, "sel": 0, "fresh": "na", "fwhat": ""}), Self::ret_fields(&o)));
                        break 'steps;
                    }
                    w.comp.push(ch);
                    let (f, what) = if i + 1 == text.chars().count() { self.shadow_compare(&cur, &w, &o, true, 0) } else { ("skip", String::new()) };
                    self.emit(merge(json!({"ev": "key", "code": code, "mod": 0, "sel": 0, "fresh": f, "fwhat": what}), Self::ret_fields(&o)));
                    last = o;
                }
                let n_c = last.len();
                if n_c == 0 { continue; }
                let idx = match how { 0 => 0, 1 => if n_c > 1 { (last.sel + 1) % n_c } else { 0 }, _ => last.sel.min(n_c - 1) };
                let before = std::fs::read(&store).ok();
                let o = ctx.commit(idx);
                let after = std::fs::read(&store).ok();
                let learnable = last.kind == "full" && idx != last.sel;
                self.emit(json!({"ev": "commit", "idx": idx, "ongoing": o.ongoing, "panic": o.panic.clone().unwrap_or_default(),
                                 "filechg": before != after, "learnable": learnable}));
                if o.kind == "panic" { break 'steps; }
            }
        }
    }

    /// Directed: a choice that exists only under some option is learned - the LAST candidate of the list (the typed English
    /// text, or an emoji) - the word is typed again and committed as preselected; then update-engine (or a restart with the
    /// other configuration) takes the option away and the word, and the word + a suffix, are typed again: the list is
    /// shorter now, its preselected index must lie inside it (C02), nothing the new configuration forbids is offered (C16),
    /// and it is the list of a brand-new context (C11).
    fn learn_last_then_flip(&mut self, shard: usize, shards: usize) {
        let mut n = 0usize;
        for word in ["help", "ami", "atm", "smile"] {
            // (flip 0 / 1: the English text is learned, then ANSI on / English off; flip 2: English off from the start - the last
            //  candidate of an emoji-name word is then an emoji - then ANSI on)
            //  flip 3: nothing is taken away - the user's auto-correct file gets an entry with an EMPTY replacement for the word
            //  (an empty first candidate appears: every index behind it moves by one)
            for (flip, restart) in [(0usize, false), (1, false), (2, false), (3, false), (0, true), (1, true), (2, true), (3, true)] {
                n += 1;
                if n % shards.max(1) != shard % shards.max(1) {
                    continue;
                }
                let base = Cfg { layout: "phonetic".into(), psug: true, english: flip != 2, ansi: false, smart: false, db: true, ..Default::default() };
                let after = if flip == 3 { base.clone() } else if flip != 1 { Cfg { ansi: true, ..base.clone() } } else { Cfg { english: false, ..base.clone() } };
                clean_home(&self.home);
                let mut ctx = match Ctx::new(&base, &self.home) { Ok(c) => c, Err(_) => continue };
                self.emit(json!({"ev": "new", "cfg": cfg_json(&base)}));
                let mut cur = base.clone();
                let store = self.home.join("openbangla-keyboard/phonetic-candidate-selection.json");
                // (text, commit: 0 = LAST index, 1 = the preselected one, 2 = finish)
                let sfx = format!("{}ta", word);
                let steps: Vec<(bool, &str, usize)> = vec![(false, word, 0), (false, word, 1), (true, word, 1), (false, sfx.as_str(), 2), (false, word, 2)];
                'steps: for (switch, text, how) in steps {
                    if switch {
                        if flip == 3 {
                            let acp = self.home.join("openbangla-keyboard/autocorrect.json");
                            std::fs::write(&acp, format!("{{\"{}\":\"\"}}", word)).unwrap();
                            if let Ok(f) = std::fs::OpenOptions::new().write(true).open(&acp) {
                                let _ = f.set_modified(std::time::UNIX_EPOCH + std::time::Duration::from_secs(1_700_000_500));
                            }
                        }
                        if restart {
                            drop(ctx);
                            ctx = match Ctx::new(&after, &self.home) { Ok(c) => c, Err(_) => break 'steps };
                            self.emit(json!({"ev": "new", "cfg": cfg_json(&after), "restart": true}));
                        } else {
                            let o = ctx.update(&after);
                            self.emit(json!({"ev": "update", "cfg": cfg_json(&after), "ongoing": o.ongoing, "panic": o.panic.clone().unwrap_or_default()}));
                            if o.kind == "panic" { break 'steps; }
                        }
                        cur = after.clone();
                    }
                    let mut w = Word::new();
                    let mut last = Obs::default();
                    let len = text.chars().count();
                    for (i, ch) in text.chars().enumerate() {
                        let code = self.keys.code_for_char(ch).unwrap();
                        let sel = if last.kind == "full" && !last.cands.is_empty() { last.sel.min(last.cands.len() - 1).min(255) as u8 } else { 0 };
                        let o = ctx.key(code, 0, sel);
                        if o.kind == "panic" {
                            self.emit(merge(json!({"ev": "key", "code": code, "mod": 0, "sel": sel, "fresh": "na", "fwhat": ""}), Self::ret_fields(&o)));
                            break 'steps;
                        }
                        w.comp.push(ch);
                        let (f, what) = if i + 1 == len { self.shadow_compare(&cur, &w, &o, true, sel) } else { ("skip", String::new()) };
                        let af = self.ansi_facts_for(&o, w.comp.as_str());
                        self.emit(merge(merge(json!({"ev": "key", "code": code, "mod": 0, "sel": sel, "fresh": f, "fwhat": what}), Self::ret_fields(&o)), af));
                        last = o;
                    }
                    let n_c = last.len();
                    if how == 2 || n_c == 0 {
                        let o = ctx.finish();
                        self.emit(json!({"ev": "finish", "ongoing": o.ongoing, "panic": o.panic.clone().unwrap_or_default()}));
                        continue;
                    }
                    let idx = if how == 0 { n_c - 1 } else { last.sel.min(n_c - 1) };
                    let before = std::fs::read(&store).ok();
                    let o = ctx.commit(idx);
                    let after_b = std::fs::read(&store).ok();
                    self.emit(json!({"ev": "commit", "idx": idx, "ongoing": o.ongoing, "panic": o.panic.clone().unwrap_or_default(),
                                     "filechg": before != after_b, "learnable": last.kind == "full" && idx != last.sel}));
                    if o.kind == "panic" { break 'steps; }
                }
            }
        }
    }

    /// Directed: whatever a context remembers per composed text may be bounded - and the bound may be reached in the middle
    /// of a word.  For B in {64 .. 1024} the context first composes exactly B - 3 - j distinct texts (filler words, each
    /// finished), then a base + suffix word whose j-th letter after the base is the (B+1)-th distinct text; every list of
    /// that word is compared with a brand-new context (C05 / C06: "any number of other words").
    fn memo_boundaries(&mut self, shard: usize, shards: usize) {
        let cfg = Cfg { layout: "phonetic".into(), psug: true, english: false, smart: false, db: true, ..Default::default() };
        let tests = ["boigulo", "(manushgulo", "sesher", "amarta"];
        let mut n = 0usize;
        for bound in [64usize, 128, 256, 512, 1024] {
            for j in 0..5usize {
                n += 1;
                if n % shards.max(1) != shard % shards.max(1) {
                    continue;
                }
                let test = tests[n % tests.len()];
                let base_len = match test { "boigulo" => 3, "(manushgulo" => 7, "sesher" => 4, _ => 4 };
                let target = bound.saturating_sub(base_len + j);
                clean_home(&self.home);
                let mut ctx = match Ctx::new(&cfg, &self.home) { Ok(c) => c, Err(_) => continue };
                self.emit(json!({"ev": "new", "cfg": cfg_json(&cfg)}));
                // filler words: distinct texts, counted by the word part composed after every key
                let mut seen: std::collections::HashSet<String> = std::collections::HashSet::new();
                let mut k = 0usize;
                let mut dead = false;
                'fill: while seen.len() < target {
                    // a word that shares no prefix with the test words: z + counter in letters
                    let mut word = String::from("z");
                    let mut x = k;
                    for _ in 0..3 { word.push((b'a' + (x % 26) as u8) as char); x /= 26; }
                    k += 1;
                    for (i, ch) in word.chars().enumerate() {
                        if seen.len() >= target { break; }
                        let code = self.keys.code_for_char(ch).unwrap();
                        let o = ctx.key(code, 0, 0);
                        self.emit(merge(json!({"ev": "key", "code": code, "mod": 0, "sel": 0, "fresh": "skip", "fwhat": ""}), Self::ret_fields(&o)));
                        if o.kind == "panic" { dead = true; break 'fill; }
                        seen.insert(word[..=i].to_string());
                    }
                    let o = ctx.finish();
                    self.emit(json!({"ev": "finish", "ongoing": o.ongoing, "panic": o.panic.clone().unwrap_or_default()}));
                }
                if dead { continue; }
                let mut w = Word::new();
                for ch in test.chars() {
                    let code = self.keys.code_for_char(ch).unwrap();
                    let o = ctx.key(code, 0, 0);
                    if o.kind == "panic" {
                        self.emit(merge(json!({"ev": "key", "code": code, "mod": 0, "sel": 0, "fresh": "na", "fwhat": ""}), Self::ret_fields(&o)));
                        break;
                    }
                    w.comp.push(ch);
                    let (f, what) = self.shadow_compare(&cfg, &w, &o, true, 0);
                    self.emit(merge(json!({"ev": "key", "code": code, "mod": 0, "sel": 0, "fresh": f, "fwhat": what}), Self::ret_fields(&o)));
                }
                let o = ctx.finish();
                self.emit(json!({"ev": "finish", "ongoing": o.ongoing, "panic": o.panic.clone().unwrap_or_default()}));
            }
        }
    }

    /// Directed: what is preselected for base + suffix is DERIVED from the base's learned choice - every time.  The suffixed word
    /// is typed before anything is learned, the base's choice is learned for the first time, the suffixed word is typed again;
    /// the base's choice is changed, the suffixed word typed once more - each time compared with a brand-new context over the
    /// same store (C05 / C06 / C09).
    fn derived_then_learn(&mut self, shard: usize, shards: usize) {
        let cfg = Cfg { layout: "phonetic".into(), psug: true, english: true, smart: false, db: true, ..Default::default() };
        let pairs = [("sesh", "sesher"), ("onno", "onnogulo"), ("amar", "amarta"), ("kotha", "kothay"), ("mon", "mone"), ("sesh", "(seshta)")];
        for (n, (base, sfx)) in pairs.iter().enumerate() {
            if n % shards.max(1) != shard % shards.max(1) {
                continue;
            }
            clean_home(&self.home);
            let mut ctx = match Ctx::new(&cfg, &self.home) { Ok(c) => c, Err(_) => continue };
            self.emit(json!({"ev": "new", "cfg": cfg_json(&cfg)}));
            let store = self.home.join("openbangla-keyboard/phonetic-candidate-selection.json");
            // (text, 0 = finish, k = commit the candidate k places after the preselected one)
            let steps: Vec<(&str, usize)> = vec![(sfx, 0), (base, 1), (sfx, 0), (base, 1), (sfx, 0), (base, 0)];
            'steps: for (text, how) in steps {
                let mut w = Word::new();
                let mut last = Obs::default();
                let len = text.chars().count();
                for (i, ch) in text.chars().enumerate() {
                    let code = self.keys.code_for_char(ch).unwrap();
                    let sel = if last.kind == "full" && !last.cands.is_empty() { last.sel.min(last.cands.len() - 1).min(255) as u8 } else { 0 };
                    let o = ctx.key(code, 0, sel);
                    if o.kind == "panic" {
                        self.emit(merge(json!({"ev": "key", "code": code, "mod": 0, "sel": sel, "fresh": "na", "fwhat": ""}), Self::ret_fields(&o)));
                        break 'steps;
                    }
                    w.comp.push(ch);
                    let (f, what) = if i + 1 == len { self.shadow_compare(&cfg, &w, &o, true, sel) } else { ("skip", String::new()) };
                    self.emit(merge(json!({"ev": "key", "code": code, "mod": 0, "sel": sel, "fresh": f, "fwhat": what}), Self::ret_fields(&o)));
                    last = o;
                }
                let n_c = last.len();
                if how == 0 || n_c < 2 {
                    let o = ctx.finish();
                    self.emit(json!({"ev": "finish", "ongoing": o.ongoing, "panic": o.panic.clone().unwrap_or_default()}));
                    continue;
                }
                let idx = (last.sel + how) % n_c;
                let before = std::fs::read(&store).ok();
                let o = ctx.commit(idx);
                let after_b = std::fs::read(&store).ok();
                self.emit(json!({"ev": "commit", "idx": idx, "ongoing": o.ongoing, "panic": o.panic.clone().unwrap_or_default(),
                                 "filechg": before != after_b, "learnable": last.kind == "full" && idx != last.sel}));
                if o.kind == "panic" { break 'steps; }
            }
        }
    }

    /// C02 at the edge of the selection byte: with a list of two or more candidates on screen the caller passes the LAST
    /// valid index together with every one of the 111 keys (what a front-end does when the user had moved the highlight to
    /// the bottom of the list); the list returned next may be shorter.  Emitted as ordinary session events.
    pub(crate) fn sel_edges(&mut self, shard: usize, shards: usize) {
        let all: Vec<u16> = self.keys.codes.iter().map(|k| k.code).collect();
        let mk = |phon: bool, english: bool, karorder: bool| Cfg {
            layout: if phon { "phonetic".into() } else { "probhat".into() }, psug: phon, fsug: !phon, english, smart: karorder, vowel: true, chandra: true,
            kar: false, reph: true, numpad: true, karorder, db: true, ..Default::default()
        };
        let cfgs = [mk(true, true, false), mk(false, true, false), mk(false, false, false), mk(false, true, true), mk(false, false, true)];
        let mut n = 0usize;
        for cfg in cfgs.iter() {
            let phon = cfg.is_phonetic();
            // starts: texts whose list has two or more candidates
            let mut starts: Vec<Vec<(u16, u8)>> = Vec::new();
            let by_chars = |s: &str, keys: &crate::keys::Keys| -> Vec<(u16, u8)> { s.chars().filter_map(|c| keys.code_for_char(c)).map(|c| (c, 0u8)).collect() };
            if phon {
                for s in [":)", "am", "sesh", "a"] {
                    starts.push(by_chars(s, &self.keys));
                }
            } else {
                let inv = LayoutInv::load(cfg, &self.keys);
                starts.push(by_chars(":)", &self.keys));
                starts.push(by_chars(":", &self.keys));
                for vals in [vec!["\u{0995}", "\u{09B2}"], vec!["\u{0986}", "\u{09AE}"], vec!["\u{0995}", "\u{09B2}", "\u{09BF}"], vec!["(", "\u{0995}", "\u{09B2}"]] {
                    let p: Vec<(u16, u8)> = vals.iter().filter_map(|v| inv.key_for_value(v)).collect();
                    if p.len() == vals.len() {
                        starts.push(p);
                    }
                }
            }
            clean_home(&self.home);
            let mut ctx = match Ctx::new(cfg, &self.home) {
                Ok(c) => c,
                Err(_) => continue,
            };
            self.emit(json!({"ev": "new", "cfg": cfg_json(cfg)}));
            for st in &starts {
                for code in &all {
                    n += 1;
                    if n % shards.max(1) != shard % shards.max(1) {
                        continue;
                    }
                    let mut last = Obs::default();
                    let mut dead = false;
                    for (c, m) in st {
                        last = ctx.key(*c, *m, 0);
                        self.emit(merge(json!({"ev": "key", "code": c, "mod": m, "sel": 0}), Self::ret_fields(&last)));
                        if last.kind == "panic" { dead = true; break; }
                    }
                    if !dead && last.kind == "full" && last.cands.len() >= 2 {
                        let sel = (last.cands.len().min(255) - 1) as u8;
                        let o = ctx.key(*code, 0, sel);
                        self.emit(merge(json!({"ev": "key", "code": code, "mod": 0, "sel": sel}), Self::ret_fields(&o)));
                        if o.kind == "panic" { dead = true; }
                    }
                    if dead {
                        ctx = match Ctx::new(cfg, &self.home) { Ok(c) => c, Err(_) => return };
                        self.emit(json!({"ev": "new", "cfg": cfg_json(cfg)}));
                        continue;
                    }
                    let o = ctx.finish();
                    self.emit(json!({"ev": "finish", "ongoing": o.ongoing, "panic": o.panic.clone().unwrap_or_default()}));
                }
            }
        }
        let _ = chars("");
    }
}
