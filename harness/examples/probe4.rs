use rv::engine::*;
fn main(){
    install_quiet_panic_hook();
    let home = scratch_home("probe");
    std::fs::create_dir_all(home.join("openbangla-keyboard/autocorrect.json")).unwrap();
    let cfg = Cfg{layout:"phonetic".into(), db:true, psug:true, ..Default::default()};
    match Ctx::new(&cfg,&home) { Ok(_) => println!("ac dir: ok"), Err(p) => println!("ac dir: PANIC {}", p) }
    std::fs::remove_dir_all(home.join("openbangla-keyboard/autocorrect.json")).unwrap();
    std::fs::create_dir_all(home.join("openbangla-keyboard/phonetic-candidate-selection.json")).unwrap();
    match Ctx::new(&cfg,&home) { Ok(mut c) => { println!("sel dir: ok"); let keys=rv::keys::Keys::load(); let mut o=Obs::default(); for ch in "amar".chars(){o=c.key(keys.code_for_char(ch).unwrap(),0,0);} let r=c.commit(1); println!("commit: {:?} {}", r.kind, r.panic.unwrap_or_default()); let _=o; }, Err(p) => println!("sel dir: PANIC {}", p) }
    std::fs::remove_dir_all(home).ok();
}
