use rv::engine::*;
fn main(){
    install_quiet_panic_hook();
    let home = scratch_home("probe");
    let keys = rv::keys::Keys::load();
    let cfg = Cfg{layout:"phonetic".into(), db:true, psug:true, ..Default::default()};
    let mut c = Ctx::new(&cfg,&home).unwrap();
    let ty = |c: &mut Ctx, t: &str| { let mut o=Obs::default(); for ch in t.chars(){ o=c.key(keys.code_for_char(ch).unwrap(),0,0);} o };
    let o = ty(&mut c, "sesh"); println!("{:?} sel={}", o.cands, o.sel); c.commit(1);
    let o = ty(&mut c, "sesher"); println!("{:?} sel={}", o.cands, o.sel); c.finish();
    let o = ty(&mut c, "sesh"); println!("{:?} sel={}", o.cands, o.sel); c.commit(2);
    let o = ty(&mut c, "sesher"); println!("after relearning base: {:?} sel={} -> {:?}", o.cands, o.sel, o.cands.get(o.sel)); c.finish();
    println!("{}", std::fs::read_to_string(home.join("openbangla-keyboard/phonetic-candidate-selection.json")).unwrap());
    std::fs::remove_dir_all(home).ok();
}
