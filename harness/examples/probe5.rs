use rv::engine::*;
fn main(){
    install_quiet_panic_hook();
    let home = scratch_home("probe");
    std::fs::write(home.join("openbangla-keyboard/autocorrect.json"), "{\"ami\":\"আমি\",\"tumi\":\"tüm\"}").unwrap();
    let cfg = Cfg{layout:"phonetic".into(), db:true, psug:true, ..Default::default()};
    let keys=rv::keys::Keys::load();
    for w in ["ami","tumi","amigulo"] {
      let mut c = Ctx::new(&cfg,&home).unwrap();
      let mut o=Obs::default(); for ch in w.chars(){o=c.key(keys.code_for_char(ch).unwrap(),0,0); if o.kind=="panic"{break;}}
      println!("{} -> {} {:?} {}", w, o.kind, o.cands, o.panic.unwrap_or_default());
    }
    let r = std::panic::catch_unwind(|| okkhor::parser::Parser::new_phonetic().convert("আমি"));
    println!("okkhor direct: {:?}", r.is_ok());
    std::fs::remove_dir_all(home).ok();
}
