use rv::engine::*;
fn main(){
    install_quiet_panic_hook();
    let home = scratch_home("probe");
    let keys = rv::keys::Keys::load();
    let cfg = Cfg{layout:"phonetic".into(), db:true, psug:true, english:true, ..Default::default()};
    let mut c = Ctx::new(&cfg,&home).unwrap();
    let ty = |c: &mut Ctx, t: &str| { let mut o=Obs::default(); for ch in t.chars(){ o=c.key(keys.code_for_char(ch).unwrap(),0,0);} o };
    let o = ty(&mut c, "\"kotha"); println!("{:?} sel={}", o.cands, o.sel);
    c.commit(3);
    println!("{}", std::fs::read_to_string(home.join("openbangla-keyboard/phonetic-candidate-selection.json")).unwrap());
    let o = ty(&mut c, "\"kotha"); println!("{:?} sel={}", o.cands, o.sel); c.finish();
    let o = ty(&mut c, "\"kothaeo"); println!("{:?} sel={}", o.cands, o.sel); c.finish();
    let o = ty(&mut c, "kothaeo"); println!("{:?} sel={}", o.cands, o.sel); c.finish();
    let o = ty(&mut c, "kothae"); println!("{:?} sel={}", o.cands, o.sel); c.finish();
    std::fs::remove_dir_all(home).ok();
}
