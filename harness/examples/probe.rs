use rv::engine::*;
fn main(){
    install_quiet_panic_hook();
    let home = scratch_home("probe");
    let keys = rv::keys::Keys::load();
    let cfg = Cfg{layout:"phonetic".into(), db:true, psug:true, ..Default::default()};
    let mut c = Ctx::new(&cfg,&home).unwrap();
    let args: Vec<String> = std::env::args().collect();
    let sel: u8 = args.get(2).and_then(|s| s.parse().ok()).unwrap_or(0);
    for ch in args[1].chars(){ let o=c.key(keys.code_for_char(ch).unwrap(),0,sel); println!("{:?} -> kind={} sel={} len={} {:?} ongoing={}", ch, o.kind, o.sel, o.cands.len(), o.cands, o.ongoing); }
    std::fs::remove_dir_all(home).ok();
}
