fn main(){
    std::panic::set_hook(Box::new(|_|{}));
    for u in 0x0980u32..=0x09FF { if let Some(c)=char::from_u32(u){ for ctx in ["", "ক"] { let s=format!("{}{}",ctx,c); let r=std::panic::catch_unwind(||poriborton::bijoy2000::unicode_to_bijoy(&s)); match r { Err(_)=>println!("PANIC U+{:04X} ctx={:?}",u,ctx), Ok(o)=> if o.chars().any(|c| ('\u{0980}'..='\u{09FF}').contains(&c)) {println!("BN-LEFT U+{:04X} ctx={:?} -> {:?}",u,ctx,o)} } } } }
}
